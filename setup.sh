#!/bin/bash
# Offline setup: nothing to build (pure python on top of /venv).  Verifies the
# interpreter and the imports the checks need, creates scratch directories.
set -e
cd "$(dirname "$(readlink -f "$0")")"
PY="${VERIF_PYTHON:-/venv/bin/python}"
mkdir -p out/jobs out/replays out/cache evidence
PYTHONPATH="${VERIF_REPO:-/repo}" JAX_PLATFORMS=cpu "$PY" - <<'PYEOF'
import warnings; warnings.simplefilter("ignore")
import jax, equinox, optax, numpy, jinns
print("setup ok: jax", jax.__version__, "equinox", equinox.__version__, "optax", optax.__version__, "jinns from", jinns.__file__)
PYEOF
