"""
Import and confirm seeded changes written by independent sub-agents.

  python tools_seed.py import <src_dir> <patch_X.diff> <demo_X.py> <notes_X.md> <seed_id> <property>
  python tools_seed.py confirm <seed_id> [...]     # scratch worktree: baseline tests + demo both ways
  python tools_seed.py detect  <seed_id> [...] [--props C07,C18]   # run the checks against it (quick tier)

Nothing here ever touches /repo's working tree: every patch is applied in a
scratch git worktree under /var/tmp which is removed afterwards.
"""

import json
import os
import re
import shutil
import subprocess
import sys
import xml.etree.ElementTree as ET

VERIF = os.path.dirname(os.path.abspath(__file__))
SEEDED = os.path.join(VERIF, "seeded")
PY = "/venv/bin/python"


def sh(cmd, **kw):
    return subprocess.run(cmd, capture_output=True, text=True, **kw)


def worktree(tag):
    d = f"/var/tmp/jinns-seed-{os.getpid()}-{tag}"
    shutil.rmtree(d, ignore_errors=True)
    sh(["git", "-C", "/repo", "worktree", "prune"])
    p = sh(["git", "-C", "/repo", "worktree", "add", "--detach", d, "HEAD"])
    if p.returncode:
        raise SystemExit("worktree failed: " + p.stderr)
    return d


def drop(d):
    sh(["git", "-C", "/repo", "worktree", "remove", "--force", d])
    shutil.rmtree(d, ignore_errors=True)
    sh(["git", "-C", "/repo", "worktree", "prune"])


def cmd_import(src, patch, demo, notes, sid, prop):
    d = os.path.join(SEEDED, sid)
    os.makedirs(d, exist_ok=True)
    shutil.copy(os.path.join(src, patch), os.path.join(d, "patch.diff"))
    shutil.copy(os.path.join(src, demo), os.path.join(d, "demo.py"))
    if notes and os.path.exists(os.path.join(src, notes)):
        shutil.copy(os.path.join(src, notes), os.path.join(d, "notes.md"))
    meta = {"id": sid, "property": prop, "source": "independent sub-agent given only the property text and a scratch worktree",
            "repo_head_when_written": sh(["git", "-C", "/repo", "rev-parse", "--short", "HEAD"]).stdout.strip()}
    json.dump(meta, open(os.path.join(d, "meta.json"), "w"), indent=1)
    print("imported", sid)


def baseline(tree, xml):
    env = dict(os.environ, JAX_PLATFORMS="cpu", PYTHONPATH=tree)
    env.pop("JINNS_VERIF", None)
    sh([PY, "-m", "pytest", "-q", "-p", "no:cacheprovider", "--timeout=900", "--continue-on-collection-errors", "-n", "6",
        f"--junitxml={xml}"], cwd=tree, env=env)
    passed = set()
    try:
        for tc in ET.parse(xml).iter("testcase"):
            if not any(c.tag in ("failure", "error", "skipped") for c in tc):
                passed.add(tc.get("classname") + "::" + tc.get("name"))
    except Exception as e:  # noqa: BLE001
        return None, str(e)
    stable = set(json.load(open("/root/.vp/BASELINE.json"))["stable_pass"])
    return len(stable & passed), sorted(stable - passed)


def run_demo(tree, demo):
    env = dict(os.environ, JAX_PLATFORMS="cpu", PYTHONPATH=tree, PYTHONHASHSEED="0")
    env.pop("JINNS_VERIF", None)
    try:
        p = subprocess.run([PY, demo], cwd=tree, env=env, capture_output=True, text=True, timeout=900)
        return p.returncode, (p.stdout + p.stderr)[-400:]
    except subprocess.TimeoutExpired:
        return "timeout", ""


def cmd_confirm(sids):
    for sid in sids:
        d = os.path.join(SEEDED, sid)
        meta = json.load(open(os.path.join(d, "meta.json")))
        wt = worktree(sid)
        try:
            rc0, out0 = run_demo(wt, os.path.join(d, "demo.py"))
            p = sh(["git", "-C", wt, "apply", os.path.join(d, "patch.diff")])
            if p.returncode:
                meta["confirmed"] = {"ok": False, "why": "patch does not apply: " + p.stderr[-200:]}
            else:
                rc1, out1 = run_demo(wt, os.path.join(d, "demo.py"))
                imp = sh([PY, "-c", "import jinns"], env=dict(os.environ, PYTHONPATH=wt, JAX_PLATFORMS="cpu"))
                npass, missing = baseline(wt, f"/var/tmp/seed-{sid}.xml")
                try:
                    os.remove(f"/var/tmp/seed-{sid}.xml")
                except OSError:
                    pass
                meta["confirmed"] = {
                    "imports": imp.returncode == 0,
                    "baseline_stable_tests_passing": npass, "baseline_stable_tests_missing": missing,
                    "demo_exit_unmodified": rc0, "demo_exit_modified": rc1, "demo_tail_modified": out1[-300:],
                    "ok": bool(imp.returncode == 0 and npass == 51 and rc0 == 0 and rc1 not in (0, "timeout")),
                    "what_was_run": "scratch worktree of /repo HEAD; demo.py on the unmodified tree, git apply patch.diff, demo.py again, "
                                    "then the BASELINE.json pytest command (guard off) compared with its 51 stable tests",
                }
        finally:
            drop(wt)
        json.dump(meta, open(os.path.join(d, "meta.json"), "w"), indent=1)
        print(sid, json.dumps(meta["confirmed"])[:400])


def cmd_detect(sids, props=None, tier="quick"):
    sys.path.insert(0, VERIF)
    from sim import selftest

    for sid in sids:
        d = os.path.join(SEEDED, sid)
        meta = json.load(open(os.path.join(d, "meta.json")))
        ps = props or meta.get("try_props") or [meta["property"]]
        r = selftest.run_mutant("seeded/" + sid, ps, os.path.join(d, "patch.diff"), tier)
        meta.setdefault("detection", {})[tier] = {"props_run": ps, "caught_by": r.get("caught_by"), "replayed": r.get("replayed"),
                                                   "signatures": r.get("signatures"), "exit": r.get("exit"), "wall_s": r.get("wall"),
                                                   "harness": r.get("harness")}
        if r.get("caught_by"):
            meta["caught_by"] = sorted(set(meta.get("caught_by", [])) | set(r["caught_by"]))
        json.dump(meta, open(os.path.join(d, "meta.json"), "w"), indent=1)
        print(sid, "caught_by", r.get("caught_by"), "replayed", r.get("replayed"), "exit", r.get("exit"), r.get("signatures"))
        if r.get("harness"):
            print("   HARNESS", json.dumps(r["harness"])[:600])


if __name__ == "__main__":
    a = sys.argv[1:]
    if a[0] == "import":
        cmd_import(*a[1:7])
    elif a[0] == "confirm":
        cmd_confirm(a[1:])
    elif a[0] == "detect":
        props = None
        tier = "quick"
        rest = a[1:]
        if "--props" in rest:
            i = rest.index("--props")
            props = rest[i + 1].split(",")
            rest = rest[:i] + rest[i + 2:]
        if "--tier" in rest:
            i = rest.index("--tier")
            tier = rest[i + 1]
            rest = rest[:i] + rest[i + 2:]
        cmd_detect(rest, props, tier)
