"""Regenerates the catch-matrix tables of DESIGN.md section 13.4 from the seeded metadata and the last mutant run.
python tools_tables.py  -> writes out/tables.md (pasted between the markers in DESIGN.md)"""
import glob, json, os, re

V = os.path.dirname(os.path.abspath(__file__))
cm = {}
p = os.path.join(V, "out", "catch_matrix.json")
if os.path.exists(p):
    cm.update(json.load(open(p)))
p = os.path.join(V, "out", "mutants_last.json")
if os.path.exists(p):
    for r in json.load(open(p)):
        ok = bool(r.get("caught_by")) and r.get("replayed") and all(":FAILED" not in x for x in r["replayed"])
        cm[r["name"]] = {"status": "CAUGHT" if ok else "MISSED", "by": r.get("caught_by", []), "sigs": r.get("signatures", {})}
DESC = json.load(open(os.path.join(V, "mutants", "descriptions.json")))
out = ["| mutant (`mutants/<name>.patch`) | what it does | caught by (quick tier, replay verified) | invariants that fired |", "|---|---|---|---|"]
for k in sorted(DESC):
    r = cm.get(k, {"by": [], "sigs": {}})
    inv = sorted({s.split("/")[0].split(".", 1)[1] for ss in r.get("sigs", {}).values() for s in ss})[:3]
    out.append(f"| {k} | {DESC[k]} | {', '.join(r['by']) or 'MISSED'} | {', '.join(inv)} |")
out += ["", "| seed (`seeded/<id>/`) | property given to the agent | what it needs in order to manifest | caught by | invariants that fired | first measurement |", "|---|---|---|---|---|---|"]
for mp in sorted(glob.glob(os.path.join(V, "seeded", "*", "meta.json"))):
    m = json.load(open(mp))
    sigs = (m.get("detection") or {}).get("signatures") or {}
    if not sigs and m.get("detection"):
        for t in m["detection"].values():
            if isinstance(t, dict) and t.get("signatures"):
                sigs = t["signatures"]
    inv = sorted({s.split("/")[0].split(".", 1)[1] for ss in sigs.values() for s in ss})[:3]
    first = "caught" if not m.get("history_of_detection") else "missed, then strengthened"
    out.append(f"| {m['id']} | {m['property']} | {m.get('needs_to_manifest','')} | {', '.join(m.get('caught_by', [])) or 'MISSED'} | {', '.join(inv)} | {first} |")
open(os.path.join(V, "out", "tables.md"), "w").write("\n".join(out) + "\n")
print("mutants:", len(DESC), "seeds:", len(glob.glob(os.path.join(V, 'seeded', '*', 'meta.json'))))
