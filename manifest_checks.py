"""Table of registered checks (see tools_manifest.py): id -> (engine, level, technique, level text, level note)."""
from tools_manifest import CHECKS as _BASE

CHECKS = dict(_BASE)
CHECKS.update({
    "C07": ("trainsim", "exploration", "real solve() (compiled and python-loop drivers, stop/resume segments) vs independent reference training loop",
            "Every slot of the 9-tuple returned by solve (loss history, per-term histories, tracked histories, final parameters, optimizer state, advanced generator, loss object, validation outputs) is compared with an uncompiled-per-step reference loop over seeded training programs (6 equation kinds, 5 optimizers, auxiliary generators, tracked specs, 1-3 stop/resume segments with three resume modes), under the compiled lax.while_loop and under the python-loop driver with per-iteration carry observation.",
            "float64 tolerance rtol 1e-8; w in {0,1} warm-up draws accepted; tiny MLPs and analytic equations; CPU only"),
    "C16": ("trainsim", "exploration", "real solve() with RAR stepped per iteration (python-loop driver) vs integer schedule/capacity model; compiled driver cross-checked",
            "After EVERY iteration of seeded refinement programs (4 generator/loss kinds, start 0..6 or beyond horizon, period 1-4, unequal time/space initial counts, ~40% capacity exhaustion) the step counter and the numbers of active time/space points are compared with an integer model; the compiled driver's final generator must be bit-identical to the stepped one's.",
            "'active' = non-zero probability; 1-D PDE refinement raises on the pinned tree (outside supported space)"),
    "C17": ("trainsim", "exploration", "real RAR steps observed through the guarded hook vs independent residual recomputation, top-k oracle and active-multiset conservation",
            "For every refinement step of seeded programs: candidates in the domain, reported residuals equal residuals recomputed from the user equation with that iteration's parameters, selection is a top-k set of them, active multiset after = active before + selected, and the active multiset is conserved across all batch draws and reshuffles between steps.",
            "needs JINNS_VERIF=1 hook (HARNESS-ERROR if absent); pre- or post-update parameters of the step's iteration both count as 'current'"),
    "C18": ("trainsim", "fault_enumeration", "single NaN/Inf fault injected at every iteration x every origin of sampled programs; result vs reference loop with the NaN-abort rule",
            "For each sampled program the fault is placed at EVERY iteration of the horizon, from EVERY origin (update/gradient of a network leaf or of an equation parameter through optax stages, loss value through a poisoned observation row or the equation's domain) and of both kinds (NaN, +Inf, the latter producing NaN one or more iterations later). Returned parameters, all histories up to the failing iteration, untouched later entries and the abort iteration are compared with the reference loop.",
            "the failing iteration is whatever the reference observes; float64"),
    "C19": ("trainsim", "exploration", "scripted validation stub (all 4-call scripts x 3 periods exhaustively) and built-in ValidationLoss vs reference loop + pure model of the bookkeeping",
            "All 256 scripts of 4 validation outcomes over {improved?}x{stop?} for periods 1,2,3 are enumerated (exhaustive sub-space) with a stub whose criterion fingerprints the parameters it is given; seeded longer scripts and the built-in ValidationLoss (own generators, patience 0-3, early stopping on/off, exact ties, NaN criteria) are sampled. Checked: invocation iterations, post-update parameters, carried-forward criterion, stop right after the first request, best parameters = last improving invocation, strict-minimum / patience semantics.",
            "built-in: discrete decisions are checked on the recorded criteria after those were validated numerically (tie-proof)"),
    "C20": ("puritysim", "exploration", "seeded call orders (eager / jit / value_and_grad / get_batch) on shared objects with deep snapshots",
            "Seeded sequences of evaluations and batch draws on the SAME objects for all 7 loss classes and all generator kinds, with deep snapshots (array bytes, structure, identity and contents of python containers) compared around every call, bit-identical repeats, numeric agreement of eager / jit / value_and_grad primal, and get_batch as a function of the generator state.",
            "SystemLossODE with a parameter batch raises NameError (outside supported space)"),
})
PENDING = {}
