"""Table of registered checks; edited as checks are built (see tools_manifest.py)."""
from tools_manifest import CHECKS as _BASE

CHECKS = dict(_BASE)
PENDING = {
    k: "claimed in DESIGN.md but the check is not built yet in this commit (work in progress); not claimed until it runs clean"
    for k in ["C07", "C16", "C17", "C18", "C19", "C20"]
}
