"""
gensim -- generator histories under a seeded scheduler (C08, C09, C14, C15).

System under simulation: 1..3 real jinns data generators ("tasks").  A program
is an explicit list of scheduler decisions: which task advances next and how
its `get_batch` is executed (eagerly, through jax.jit, as a lax.scan of k calls
inside one compiled program - which is what jinns.solve does - or after a
pytree flatten/unflatten round trip).  After every single call the real
generator state and the real batch are handed (as numpy copies) to the oracles
of the property being checked, which compare them with small reference models.
"""

from __future__ import annotations

import collections

import numpy as np

import jax
import jax.numpy as jnp

import jinns
from sim.core import Violation, HarnessError, Unsupported

KINDS = ["ode", "statio", "nonstatio", "obs", "param", "obsmulti"]

# ---------------------------------------------------------------------------
# program generation (pure python, no jax)


def _box(rng, exact):
    """An interval; `exact` -> binary-exact end points."""
    if exact:
        lo = rng.choice([-4, -3, -2, -1, -0.5, 0, 0, 0, 0.25, 1, 2])
        w = rng.choice([0.5, 1, 1, 1, 2, 3, 4, 8])
    else:
        lo = round(rng.uniform(-5, 5), 3)
        w = round(rng.uniform(0.1, 7), 3)
    return float(lo), float(lo + w)


def _n_b(rng, nmax, want_div=None):
    """(n, b) with b <= n; about half of the draws have b | n."""
    if want_div is None:
        want_div = rng.random() < 0.5
    for _ in range(200):
        n = rng.randint(1, nmax)
        if want_div:
            divs = [d for d in range(1, n + 1) if n % d == 0]
            b = rng.choice(divs)
        else:
            b = rng.randint(1, n)
        if (n % b == 0) == want_div or n <= 2:
            return n, b
    return n, b


def gen_task(rng, kind, nmax=24, props=()):
    exact = rng.random() < 0.7
    key = rng.randrange(2**31)
    if kind == "ode":
        nt, bt = _n_b(rng, nmax)
        tmin, tmax = _box(rng, exact)
        spec = {"kind": kind, "key": key, "nt": nt, "bt": bt, "tmin": tmin, "tmax": tmax,
                "method": "grid" if rng.random() < 0.3 else "uniform"}
        if rng.random() < 0.15 and nt > 1:
            # legal and documented as ignored: nt_start given although no refinement is requested
            spec["nt_start_given"] = rng.randint(1, nt - 1)
        return spec
    if kind in ("statio", "nonstatio"):
        dim = rng.choice([1, 2])
        method = "grid" if rng.random() < 0.3 else "uniform"
        n, bo = _n_b(rng, nmax)
        if method == "grid" and dim == 2:
            s = rng.randint(1, 5)
            n = s * s
            bo = rng.choice([d for d in range(1, n + 1) if n % d == 0]) if rng.random() < 0.5 else rng.randint(1, n)
        lo0, hi0 = _box(rng, exact)
        lo1, hi1 = _box(rng, exact)
        spec = {"kind": kind, "key": key, "n": n, "bo": bo, "dim": dim, "method": method,
                "min_pts": [lo0, lo1][:dim], "max_pts": [hi0, hi1][:dim]}
        border = rng.random() < 0.75
        if not border:
            spec["nb"], spec["bb"] = None, None
        elif dim == 1:
            spec["nb"], spec["bb"] = 2, 1
        else:
            nbf, bb = _n_b(rng, 8)
            spec["nb"], spec["bb"] = 4 * nbf, bb
        if kind == "nonstatio":
            nt, bt = _n_b(rng, nmax)
            tmin, tmax = _box(rng, exact)
            cart = rng.random() < 0.6
            spec.update({"nt": nt, "bt": bt, "tmin": tmin, "tmax": tmax, "cartesian": cart})
            if not cart:
                # stacking requires equal batch sizes
                b = min(spec["bo"], nt)
                if method == "grid" and dim == 2:
                    b = min(b, spec["n"])
                spec["bo"] = spec["bt"] = b
                if dim == 2 and spec["bb"] is not None:
                    nbf = max(spec["nb"] // 4, b)
                    spec["nb"], spec["bb"] = 4 * nbf, b
        if rng.random() < 0.15 and spec["n"] > 1:
            # legal and documented as ignored without refinement
            spec["n_start_given"] = rng.randint(1, spec["n"] - 1)
            if kind == "nonstatio" and spec["nt"] > 1:
                spec["nt_start_given"] = rng.randint(1, spec["nt"] - 1)
        return spec
    if kind == "obs":
        n, b = _n_b(rng, nmax)
        return {"kind": kind, "key": key, "n": n, "b": b,
                "in_dim": rng.choice([0, 1, 2, 3]),  # 0 -> 1-D table (n,)
                "val_dim": rng.choice([0, 1, 2]),
                "params": rng.sample(["nu", "theta", "k3"], rng.randint(0, 2)),
                "param_1d": rng.random() < 0.5}
    if kind == "param":
        n, b = _n_b(rng, nmax)
        names = rng.sample(["a", "b", "c", "d"], rng.randint(1, 3))
        ranges, user = {}, {}
        for i, nm in enumerate(names):
            mode = rng.choice(["range", "range", "user", "both"])
            if mode in ("range", "both"):
                # disjoint ranges: key i lives in [10 i, 10 i + w]
                w = rng.choice([0.5, 1.0, 2.0, 4.0]) if exact else round(rng.uniform(0.1, 5), 3)
                ranges[nm] = [10.0 * i, 10.0 * i + w]
            if mode in ("user", "both"):
                user[nm] = rng.choice(["n", "n1"])  # shape (n,) or (n, 1)
        order = list(names)
        rng.shuffle(order)
        return {"kind": kind, "key": key, "n": n, "b": b, "ranges": ranges, "user": user,
                "method": "grid" if rng.random() < 0.25 else "uniform",
                "keys_as_dict": rng.random() < 0.8,
                "keys_order": order,  # insertion order of the user's dict of PRNG keys (any order is legal)
                # insertion orders of the user's range / table dicts are inputs too: recorded as lists, because
                # replay files are written with sorted keys (seed v15B: its violations did not replay without this)
                "ranges_order": list(ranges), "user_order": [nm for nm in order if nm in user]}
    if kind == "obsmulti":
        b = rng.randint(1, 4)
        nets = []
        for _ in range(rng.randint(2, 3)):
            if rng.random() < 0.3:
                nets.append(None)
            else:
                nets.append({"n": rng.randint(b, nmax), "in_dim": rng.choice([0, 1, 2]),
                             "val_dim": rng.choice([0, 1, 2]),
                             "params": rng.sample(["nu", "theta"], rng.randint(0, 1))})
        if all(x is None for x in nets):
            nets[0] = {"n": rng.randint(b, nmax), "in_dim": 1, "val_dim": 1, "params": []}
        real = [x for x in nets if x is not None]
        if len(real) >= 2 and rng.random() < 0.5:
            for x in real[1:]:  # same table shapes for all networks: a mix-up between networks cannot raise
                x["n"], x["val_dim"], x["params"] = real[0]["n"], real[0]["val_dim"], list(real[0]["params"])
        order_v = list(range(len(nets)))
        order_p = list(range(len(nets)))
        rng.shuffle(order_v)
        rng.shuffle(order_p)
        return {"kind": kind, "key": key, "b": b, "nets": nets, "order_values": order_v, "order_params": order_p}
    raise HarnessError(f"unknown kind {kind}")


def _twin(rng, spec):
    """A second space-time generator with the temporal and spatial sizes of the
    first one swapped (same row counts, other factorisation): two tasks that
    only differ this way expose state shared between generators (module-level
    caches keyed too coarsely)."""
    t = dict(spec, key=rng.randrange(2**31))
    t["nt"], t["n"] = spec["n"], spec["nt"]
    t["bt"], t["bo"] = spec["bo"], spec["bt"]
    if t["method"] == "grid" and t["dim"] == 2:
        t["method"] = "uniform"
    return t if _valid_spec(t) else None


def _with_rar_config(rng, spec):
    """The generator is configured for refinement (pre-allocated store larger than the initial point set)
    but no refinement step ever runs here: only get_batch is called.  Every stored point, live or not,
    must already be a point of the domain."""
    k = spec["kind"]
    rp = {"start_iter": 10**6, "update_every": 1}
    cfg = {}
    if k in ("ode", "nonstatio") and spec["nt"] > 1:
        cfg["nt_start"] = rng.randint(1, spec["nt"] - 1)
        rp.update(sample_size_times=3, selected_sample_size_times=1)
    if k in ("statio", "nonstatio") and spec["n"] > 1:
        cfg["n_start"] = rng.randint(1, spec["n"] - 1)
        rp.update(sample_size_omega=3, selected_sample_size_omega=1)
    need = {"ode": {"nt_start"}, "statio": {"n_start"}, "nonstatio": {"nt_start", "n_start"}}[k]
    if set(cfg) != need:
        return spec
    s = dict(spec)
    s.pop("n_start_given", None)
    s.pop("nt_start_given", None)
    s["rar_cfg"] = dict(cfg, params=rp)
    return s


def gen_program(rng, kinds, max_tasks=2, max_ops=40, nmax=24, float_mode="x64", rar_cfg_prob=0.0):
    ntasks = rng.randint(1, max_tasks)
    tasks = [gen_task(rng, rng.choice(kinds), nmax) for _ in range(ntasks)]
    if rar_cfg_prob:
        tasks = [_with_rar_config(rng, t) if (t["kind"] in ("ode", "statio", "nonstatio") and rng.random() < rar_cfg_prob) else t
                 for t in tasks]
    if ntasks == 2 and tasks[0]["kind"] == "nonstatio" and tasks[0]["cartesian"] and rng.random() < 0.5:
        tw = _twin(rng, tasks[0])
        if tw is not None:
            tasks[1] = tw
    nops = rng.randint(max(3, max_ops // 4), max_ops)
    ops = []
    # swarm style: every program draws its own palette of execution modes
    palette = rng.choice([["jit"], ["eager"], ["scan"], ["jit", "scan"], ["eager", "rt"],
                          ["jit", "rt"], ["eager", "jit"], ["scan", "rt"], ["eager", "jit", "scan", "rt"]])
    k = rng.randint(2, 6)
    calls = 0
    while calls < nops:
        op = {"t": rng.randrange(ntasks), "mode": rng.choice(palette)}
        if op["mode"] == "scan":
            op["k"] = k
            calls += k
        else:
            calls += 1
        ops.append(op)
    return {"float": float_mode, "tasks": tasks, "ops": ops}


# ---------------------------------------------------------------------------
# building real generators from specs


def _fdtype():
    return np.float64 if jax.config.jax_enable_x64 else np.float32


C_IN, C_VAL, C_PAR = 1000.0, 5000.0, 9000.0  # offsets of the row-identity encoding


NET_OFF = 20000.0  # offset of network i in multi-network tables: i * NET_OFF in every column


def obs_tables(n, in_dim, val_dim, params, param_1d=True, off=0.0):
    """Tables whose row r is recognisable in every column (exact in float32):
    pinn_in[r, j] = r + C_IN + 100 j, val[r, j] = r + C_VAL + 100 j,
    eq_params[k][r] = r + C_PAR + 100 idx(k)."""
    dt = _fdtype()
    r = np.arange(n, dtype=dt) + dt(off)
    if in_dim == 0:
        pin = r + C_IN
    else:
        pin = np.stack([r + C_IN + 100 * j for j in range(in_dim)], axis=1)
    if val_dim == 0:
        val = r + C_VAL
    else:
        val = np.stack([r + C_VAL + 100 * j for j in range(val_dim)], axis=1)
    eq = {}
    for i, k in enumerate(sorted(params)):
        col = r + C_PAR + 100 * i
        eq[k] = col if param_1d else col[:, None]
    return pin, val, eq


def build_task(spec):
    k = spec["kind"]
    key = jax.random.PRNGKey(spec["key"])
    rc = spec.get("rar_cfg")
    if rc and k == "ode":
        return jinns.data.DataGeneratorODE(key, spec["nt"], spec["tmin"], spec["tmax"], spec["bt"], method=spec["method"],
                                           rar_parameters=dict(rc["params"]), nt_start=rc["nt_start"])
    if rc and k == "statio":
        return jinns.data.CubicMeshPDEStatio(
            key=key, n=spec["n"], nb=spec["nb"], omega_batch_size=spec["bo"],
            omega_border_batch_size=spec["bb"], dim=spec["dim"],
            min_pts=tuple(spec["min_pts"]), max_pts=tuple(spec["max_pts"]), method=spec["method"],
            rar_parameters=dict(rc["params"]), n_start=rc["n_start"])
    if rc and k == "nonstatio":
        return jinns.data.CubicMeshPDENonStatio(
            key=key, n=spec["n"], nb=spec["nb"], nt=spec["nt"], omega_batch_size=spec["bo"],
            omega_border_batch_size=spec["bb"], temporal_batch_size=spec["bt"], dim=spec["dim"],
            min_pts=tuple(spec["min_pts"]), max_pts=tuple(spec["max_pts"]),
            tmin=spec["tmin"], tmax=spec["tmax"], method=spec["method"], cartesian_product=spec["cartesian"],
            rar_parameters=dict(rc["params"]), n_start=rc["n_start"], nt_start=rc["nt_start"])
    if k == "ode":
        return jinns.data.DataGeneratorODE(key, spec["nt"], spec["tmin"], spec["tmax"], spec["bt"], method=spec["method"],
                                           nt_start=spec.get("nt_start_given"))
    if k == "statio":
        return jinns.data.CubicMeshPDEStatio(
            key=key, n=spec["n"], nb=spec["nb"], omega_batch_size=spec["bo"],
            omega_border_batch_size=spec["bb"], dim=spec["dim"],
            min_pts=tuple(spec["min_pts"]), max_pts=tuple(spec["max_pts"]), method=spec["method"],
            n_start=spec.get("n_start_given"))
    if k == "nonstatio":
        return jinns.data.CubicMeshPDENonStatio(
            key=key, n=spec["n"], nb=spec["nb"], nt=spec["nt"], omega_batch_size=spec["bo"],
            omega_border_batch_size=spec["bb"], temporal_batch_size=spec["bt"], dim=spec["dim"],
            min_pts=tuple(spec["min_pts"]), max_pts=tuple(spec["max_pts"]),
            tmin=spec["tmin"], tmax=spec["tmax"], method=spec["method"],
            cartesian_product=spec["cartesian"], n_start=spec.get("n_start_given"), nt_start=spec.get("nt_start_given"))
    if k == "obs":
        pin, val, eq = obs_tables(spec["n"], spec["in_dim"], spec["val_dim"], spec["params"], spec.get("param_1d", True))
        return jinns.data.DataGeneratorObservations(
            key, spec["b"], jnp.asarray(pin), jnp.asarray(val), {a: jnp.asarray(v) for a, v in eq.items()})
    if k == "param":
        dt = _fdtype()
        user = {}
        for i, (nm, shp) in enumerate(sorted(spec["user"].items())):
            col = np.arange(spec["n"], dtype=dt) + C_PAR + 100 * i
            user[nm] = jnp.asarray(col if shp == "n" else col[:, None])
        user = {nm: user[nm] for nm in spec.get("user_order", sorted(user)) if nm in user}
        names = sorted(set(spec["ranges"]) | set(spec["user"]))
        if spec.get("keys_as_dict", True):
            ks = jax.random.split(key, len(names))
            by_name = {nm: ks[i] for i, nm in enumerate(names)}
            order = [nm for nm in spec.get("keys_order", names) if nm in by_name] or names
            keys = {nm: by_name[nm] for nm in order}
        else:
            keys = key
        return jinns.data.DataGeneratorParameter(
            keys, spec["n"], spec["b"],
            param_ranges={a: tuple(spec["ranges"][a]) for a in spec.get("ranges_order", sorted(spec["ranges"])) if a in spec["ranges"]},
            method=spec["method"], user_data=user)
    if k == "obsmulti":
        pins, vals, eqs = {}, {}, {}
        for i, net in enumerate(spec["nets"]):
            name = f"u{i}"
            if net is None:
                pins[name], vals[name], eqs[name] = None, None, {}
            else:
                pin, val, eq = obs_tables(net["n"], net["in_dim"], net["val_dim"], net["params"], off=i * NET_OFF)
                pins[name], vals[name] = jnp.asarray(pin), jnp.asarray(val)
                eqs[name] = {a: jnp.asarray(v) for a, v in eq.items()}
        # the three user dicts may be written in different key orders
        names_ = list(pins.keys())
        vals = {names_[i]: vals[names_[i]] for i in spec.get("order_values", range(len(names_)))}
        eqs = {names_[i]: eqs[names_[i]] for i in spec.get("order_params", range(len(names_)))}
        return jinns.data.DataGeneratorObservationsMultiPINNs(
            spec["b"], pins, vals, observed_eq_params_dict=eqs, key=key)
    raise HarnessError(f"unknown kind {k}")


# ---------------------------------------------------------------------------
# executing ops


def _np(x):
    return jax.tree_util.tree_map(lambda a: np.asarray(a), x)


def _stabilise(g):
    """Cursors start as python ints; make them int32 arrays so that the carry
    type of a scan is stable (this is what any jit boundary does)."""
    leaves, td = jax.tree_util.tree_flatten(g)
    leaves = [jnp.asarray(x) for x in leaves]
    return jax.tree_util.tree_unflatten(td, leaves)


class Exec:
    """Execution modes of get_batch for ONE task.  The compiled functions are
    per task (as in jinns.solve, which builds its jitted get_batch per call):
    observation generators carry their tables as static fields, and two
    different tables must never meet in one jit cache."""

    _uid = [0]

    def __init__(self):
        self._jit = None
        self._scan = {}

    @classmethod
    def _unique(cls, src, name, ns):
        """jax (0.11) keys its trace cache on the *code object*; functions made
        here get a unique name so that two tasks never share a cache entry."""
        cls._uid[0] += 1
        uname = f"{name}_{cls._uid[0]}"
        exec(src.replace(name, uname), ns)  # noqa: S102 - fixed template, no external input
        return ns[uname]

    def jit(self, g):
        if self._jit is None:
            f = self._unique("def gb(gg):\n    return gg.get_batch()\n", "gb", {})
            self._jit = jax.jit(f)
        return self._jit(g)

    def scan(self, g, k):
        if k not in self._scan:
            ns = {"jax": jax, "K": k}
            body = self._unique(
                "def sbody(gg, _):\n    gg2, b = gg.get_batch()\n    return gg2, (gg2, b)\n", "sbody", ns)
            ns["BODY"] = body
            f = self._unique(
                "def sloop(gg):\n    return jax.lax.scan(BODY, gg, None, length=K)\n", "sloop", ns)
            self._scan[k] = jax.jit(f)
        return self._scan[k](g)

    def apply(self, g, op, first):
        """Returns the list of (generator_after, batch) for each single call."""
        mode = op["mode"]
        if mode == "eager":
            g2, b = g.get_batch()
            return [(g2, b)]
        if mode == "jit":
            g2, b = self.jit(g)
            return [(g2, b)]
        if mode == "rt":
            leaves, td = jax.tree_util.tree_flatten(g)
            g = jax.tree_util.tree_unflatten(td, leaves)
            g2, b = g.get_batch()
            return [(g2, b)]
        if mode == "scan":
            out = []
            k = op.get("k", 2)
            if first:
                # the first call must run outside scan (carry type change);
                # solve() does the same with its warm-up batch
                g, b = self.jit(g)
                out.append((g, b))
            g = _stabilise(g)
            _, (gs, bs) = self.scan(g, k)
            for i in range(k):
                gi = jax.tree_util.tree_map(lambda a: a[i], gs)
                bi = jax.tree_util.tree_map(lambda a: a[i], bs)
                out.append((gi, bi))
            return out
        raise HarnessError(f"unknown mode {mode}")


# ---------------------------------------------------------------------------
# views: sub-streams of a task


def _rows(a):
    a = np.asarray(a)
    if a.ndim == 0:
        return a.reshape(1, 1)
    if a.ndim == 1:
        return a.reshape(-1, 1)
    return a.reshape(a.shape[0], -1)


def _cursor(x):
    if x is None:
        return None
    return int(np.asarray(x))


def nonstatio_factors(spec, batch):
    """(T, X, DX) extracted from a space-time batch (no check here)."""
    t_x = np.asarray(batch.times_x_inside_batch)
    bx, bt = spec["bo"], spec["bt"]
    if spec["cartesian"]:
        T = t_x[::bx, 0] if t_x.shape[0] >= 1 else t_x[:, 0]
        X = t_x[:bx, 1:]
    else:
        T = t_x[:, 0]
        X = t_x[:, 1:]
    DX = None
    if batch.times_x_border_batch is not None:
        t_dx = np.asarray(batch.times_x_border_batch)
        if spec["dim"] == 1:
            DX = t_dx[:1, 1:, :]
        elif spec["cartesian"]:
            DX = t_dx[: spec["bb"], 1:, :]
        else:
            DX = t_dx[:, 1:, :]
    return T, X, DX


def substreams(spec, g, batch):
    """List of sub-stream views {name, key, store, cursor, batch, n, b} with
    store/batch as 2-D row arrays.  With batch=None (construction time) the
    `batch` entries are None."""
    k = spec["kind"]
    out = []
    has = batch is not None

    def R(f):
        return _rows(f()) if has else None

    if k == "ode":
        out.append(dict(name="times", key=np.asarray(g.key), store=_rows(g.times), cursor=_cursor(g.curr_time_idx),
                        batch=R(lambda: batch.temporal_batch), n=spec["nt"], b=spec["bt"]))
    elif k == "statio":
        out.append(dict(name="omega", key=np.asarray(g.key), store=_rows(g.omega), cursor=_cursor(g.curr_omega_idx),
                        batch=R(lambda: batch.inside_batch), n=spec["n"], b=spec["bo"]))
        if spec["bb"] is not None and spec["dim"] == 2:
            out.append(dict(name="border", key=np.asarray(g.key), store=_rows(g.omega_border),
                            cursor=_cursor(g.curr_omega_border_idx), batch=R(lambda: batch.border_batch),
                            n=spec["nb"] // 4, b=spec["bb"]))
    elif k == "nonstatio":
        T, X, DX = nonstatio_factors(spec, batch) if has else (None, None, None)
        out.append(dict(name="omega", key=np.asarray(g.key), store=_rows(g.omega), cursor=_cursor(g.curr_omega_idx),
                        batch=R(lambda: X), n=spec["n"], b=spec["bo"]))
        if spec["bb"] is not None and spec["dim"] == 2:
            out.append(dict(name="border", key=np.asarray(g.key), store=_rows(g.omega_border),
                            cursor=_cursor(g.curr_omega_border_idx), batch=R(lambda: DX),
                            n=spec["nb"] // 4, b=spec["bb"]))
        out.append(dict(name="times", key=np.asarray(g.key), store=_rows(g.times), cursor=_cursor(g.curr_time_idx),
                        batch=R(lambda: T), n=spec["nt"], b=spec["bt"]))
    elif k == "obs":
        out.append(_obs_stream("indices", spec, g, batch))
    elif k == "param":
        for nm in sorted(g.param_n_samples.keys()):
            out.append(dict(name=f"param:{nm}", key=np.asarray(g.keys[nm]), store=_rows(g.param_n_samples[nm]),
                            cursor=_cursor(g.curr_param_idx[nm]), batch=R(lambda: batch[nm]), n=spec["n"], b=spec["b"]))
    elif k == "obsmulti":
        for i, net in enumerate(spec["nets"]):
            if net is None:
                continue
            name = f"u{i}"
            sub = dict(net, b=spec["b"], off=i * NET_OFF)
            out.append(_obs_stream(f"indices:{name}", sub, g.data_gen_obs[name], batch[name] if has else None))
    return out


def _obs_stream(name, spec, g, batch):
    if batch is None:
        ridx = None
    else:
        pin = _rows(batch["pinn_in"])
        # row identity decoded from the first input column
        ridx = np.rint(pin[:, 0] - C_IN - spec.get("off", 0.0)).astype(np.int64).reshape(-1, 1)
    return dict(name=name, key=np.asarray(g.key), store=_rows(np.asarray(g.indices).astype(np.int64)),
                cursor=_cursor(g.curr_idx), batch=ridx, n=spec["n"], b=spec["b"])


# ---------------------------------------------------------------------------
# reference model: epochs of a sub-stream (C09)


def _ms(rows):
    return collections.Counter(r.tobytes() for r in np.ascontiguousarray(rows))


class EpochModel:
    """Multiset epoch model of one sub-stream.

    A reshuffle is *definite* when the order of the store changed or the
    cursor (documented as "start of the last served batch") is 0 after the
    call; it is *possible* when only the PRNG key of the stream changed (several
    sub-streams may share one key).  Hypotheses about the rows served since the
    last reshuffle are tracked angelically: a violation is reported only when
    no interpretation of the ambiguous events is consistent with the property.
    """

    def __init__(self, prop, task_kind, view, perm_only=False):
        self.prop = prop
        self.kind = task_kind
        # perm_only: refinement-configured stores (live + reserved slots): only "the store stays a permutation of
        # itself" and "the batch is made of stored rows" are checked, the epoch of the live part is C16/C17's
        self.perm_only = perm_only
        self.name = view["name"].split(":")[0]
        self.n, self.b = view["n"], view["b"]
        self.div = self.n % self.b == 0
        self.store_ms = _ms(view["store"])
        self.store = view["store"].copy()
        self.key = view["key"].copy()
        # hypotheses: list of (served Counter | None) ; None = fresh (nothing served yet)
        self.hyps = [None]
        self.epochs = 0
        self.calls = 0
        self.phase = "fresh"

    def _sig(self, inv, extra=""):
        d = "b|n" if self.div else "b!|n"
        return f"{self.prop}.{inv}/{self.kind}/{self.name}/{d}{extra}"

    def _covered(self, served):
        if served is None:
            return False
        return all(served.get(r, 0) >= m for r, m in self.store_ms.items())

    def step(self, view, ctx, step):
        self.calls += 1
        store, batch = view["store"], view["batch"]
        # I1 permutation only
        ms = _ms(store)
        if ms != self.store_ms:
            raise Violation(self.prop, "I1-store-altered", self._sig("store-altered"),
                            {"stream": view["name"], "n": self.n, "b": self.b, "call": self.calls}, step)
        # I2 batch is a sub-multiset of the store with the declared size
        if batch.shape[0] != self.b:
            raise Violation(self.prop, "I2-batch-size", self._sig("batch-size"),
                            {"stream": view["name"], "got": int(batch.shape[0]), "declared": self.b}, step)
        bms = _ms(batch)
        for r, c in bms.items():
            if c > self.store_ms.get(r, 0):
                raise Violation(self.prop, "I2-batch-not-in-store", self._sig("batch-not-in-store"),
                                {"stream": view["name"], "n": self.n, "b": self.b, "call": self.calls}, step)
        order_changed = not np.array_equal(store, self.store)
        if self.perm_only:
            if order_changed:
                ctx.count("probe.rar_configured_store_reshuffled")
                self.epochs += 1
            self.store = store.copy()
            return
        key_changed = not np.array_equal(view["key"], self.key)
        cur = view["cursor"]
        definite = order_changed or (cur is not None and cur == 0)
        possible = definite or key_changed
        new_hyps = []
        fail_cont, fail_resh = None, None
        for served in self.hyps:
            # interpretation 1: no reshuffle in this call
            if not definite:
                if served is None:
                    # a fresh stream serves its first batch; reshuffling first or not is free
                    new_hyps.append(collections.Counter(bms))
                elif self._covered(served):
                    fail_cont = fail_cont or ("I5-late-reshuffle", "late-reshuffle")
                else:
                    s2 = served + bms
                    if self.div and any(c > self.store_ms[r] for r, c in s2.items()):
                        fail_cont = fail_cont or ("I3-served-twice", "served-twice")
                    else:
                        new_hyps.append(s2)
            # interpretation 2: reshuffle in this call
            if possible:
                if served is None or self._covered(served):
                    new_hyps.append(collections.Counter(bms))
                else:
                    fail_resh = fail_resh or ("I4-premature-reshuffle", "premature-reshuffle")
        if not new_hyps:
            inv, tag = (fail_resh if definite else (fail_cont or fail_resh))
            raise Violation(self.prop, inv, self._sig(tag),
                            {"stream": view["name"], "n": self.n, "b": self.b, "call": self.calls,
                             "cursor_after": cur, "order_changed": bool(order_changed), "key_changed": bool(key_changed)}, step)
        # dedupe
        uniq = {}
        for h in new_hyps:
            uniq[tuple(sorted(h.items()))] = h
        self.hyps = list(uniq.values())[:8]
        # bookkeeping for coverage measure
        prev_phase = self.phase
        if definite and self.calls > 1:
            self.epochs += 1
        if definite:
            self.phase = "just-reshuffled"
        elif any(self._covered(h) for h in self.hyps):
            self.phase = "last-exact" if self.div else "last-clamped"
        else:
            self.phase = "mid-epoch"
        if definite:
            ctx.count("probe.reshuffle")
            if self.calls > 1:
                ctx.count("probe.reshuffle_after_epoch")
        if self.phase == "last-exact":
            ctx.count("probe.epoch_end_b_divides_n")
        if self.phase == "last-clamped":
            ctx.count("probe.epoch_end_clamped")
        if self.epochs >= 3:
            ctx.count("probe.three_epochs")
        self.store = store.copy()
        self.key = view["key"].copy()
        return prev_phase, self.phase


# ---------------------------------------------------------------------------
# running a program


class TaskRun:
    def __init__(self, idx, spec):
        self.idx = idx
        self.spec = spec
        self.g = build_task(spec)
        self.calls = 0
        self.models = {}
        self.ex = Exec()


def run_program(program, ctx, on_construct, on_call):
    """Scheduler loop.  on_construct(task) once per task, on_call(task, g_np,
    batch_np, op, step) after every single get_batch."""
    tasks = []
    for i, spec in enumerate(program["tasks"]):
        t = TaskRun(i, spec)
        ctx.log.add("construct", task=i, spec=spec)
        on_construct(t)
        tasks.append(t)
    step = 0
    for op in program["ops"]:
        t = tasks[op["t"]]
        results = t.ex.apply(t.g, op, first=(t.calls == 0))
        for g2, b in results:
            step += 1
            t.calls += 1
            ctx.sim_time += 1
            g_np, b_np = g2, _np(b)
            ctx.count("calls." + op["mode"])
            on_call(t, g_np, b_np, op, step)
            t.g = g2
        # the log records an abstract observation of the last call
        hash_dependent = t.spec["kind"] == "param" and not t.spec.get("keys_as_dict", True)
        leaves = [np.asarray(x) for x in jax.tree_util.tree_leaves(b_np)]
        ctx.log.add("op", t=op["t"], mode=op["mode"], k=op.get("k"), calls=t.calls,
                    batch=[list(x.shape) for x in leaves] if hash_dependent else leaves)
    return tasks


def shrink_program(program):
    """Candidates for delta debugging, simplest first."""
    ops, tasks = program["ops"], program["tasks"]
    # keep a single task (the last op's task first)
    if len(tasks) > 1:
        order = list(range(len(tasks)))
        if ops:
            order.sort(key=lambda i: i != ops[-1]["t"])
        for keep in order:
            new_ops = [dict(o, t=0) for o in ops if o["t"] == keep]
            yield dict(program, tasks=[tasks[keep]], ops=new_ops)
    # truncate / halve / drop single ops
    n = len(ops)
    if n > 1:
        yield dict(program, ops=ops[n // 2:])
        yield dict(program, ops=ops[: n // 2])
        for i in range(n):
            yield dict(program, ops=ops[:i] + ops[i + 1:])
    # simplify modes
    for i, o in enumerate(ops):
        if o["mode"] != "eager":
            k = o.get("k", 1) if o["mode"] == "scan" else 1
            yield dict(program, ops=ops[:i] + [{"t": o["t"], "mode": "eager"}] * k + ops[i + 1:])
    # shrink integers of the tasks
    for ti, spec in enumerate(tasks):
        for fld in ("nt", "n", "bt", "bo", "b", "bb"):
            v = spec.get(fld)
            if isinstance(v, int) and v > 1:
                for nv in sorted({1, v // 2, v - 1}):
                    if 1 <= nv < v:
                        s2 = dict(spec, **{fld: nv})
                        if _valid_spec(s2):
                            yield dict(program, tasks=tasks[:ti] + [s2] + tasks[ti + 1:])
        if spec.get("nb") and spec.get("dim") == 2 and spec["nb"] > 4:
            s2 = dict(spec, nb=spec["nb"] - 4)
            if _valid_spec(s2):
                yield dict(program, tasks=tasks[:ti] + [s2] + tasks[ti + 1:])


def _valid_spec(s):
    k = s["kind"]
    try:
        if k == "ode":
            return s["bt"] <= s["nt"]
        if k in ("statio", "nonstatio"):
            if s["bo"] > s["n"]:
                return False
            if s["method"] == "grid" and s["dim"] == 2 and int(round(s["n"] ** 0.5)) ** 2 != s["n"]:
                return False
            if s["dim"] == 2 and s["bb"] is not None and (s["nb"] // 4 < s["bb"] or s["nb"] % 4):
                return False
            if k == "nonstatio":
                if s["bt"] > s["nt"]:
                    return False
                if not s["cartesian"]:
                    if s["bt"] != s["bo"]:
                        return False
                    if s["dim"] == 2 and s["bb"] is not None and s["bb"] != s["bt"]:
                        return False
            return True
        if k in ("obs", "param"):
            return s["b"] <= s["n"]
        if k == "obsmulti":
            return all(n is None or n["n"] >= s["b"] for n in s["nets"])
    except (KeyError, TypeError):
        return False
    return True
