"""Evidence writer: everything is measured on the run that just finished."""

from __future__ import annotations

import json
import os
import shutil
import subprocess

from sim import core

SCHEMA = "/root/.vp/EVIDENCE.schema.json"


def write(mod, prop, tier, seed, records, errors, wall, n_viol, n_known):
    ok = [r for r in records if "digest" in r]
    stats = {}
    states, transitions = set(), set()
    keys = set()
    sim_time = 0
    samples = []
    for r in ok:
        for k, v in (r.get("stats") or {}).items():
            stats[k] = stats.get(k, 0) + v
        states.update(r.get("states") or [])
        transitions.update(r.get("transitions") or [])
        if r.get("nontrivial"):
            keys.add(json.dumps(r.get("key"), sort_keys=True))
        sim_time += r.get("sim_time") or 0
        if "sample" in r and len(samples) < 3:
            samples.append(r["sample"])
    if not samples:
        samples = [{"note": "no run completed"}]
    faults = {k[len("fault."):]: v for k, v in stats.items() if k.startswith("fault.")}
    probes = {k[len("probe."):]: v for k, v in stats.items() if k.startswith("probe.")}
    other = {k: v for k, v in stats.items() if not k.startswith(("fault.", "probe."))}
    cov = {
        "evaluations": len(ok),
        "distinct_nontrivial": len(keys),
        "rule": mod.RULE,
        "samples": samples,
        "states": len(states),
        "transitions": len(transitions),
        "state_measure": getattr(mod, "STATE_MEASURE", ""),
        "runs": len(ok),
        "run_index_first": ok[0]["r"] if ok else None,
        "run_index_last": ok[-1]["r"] if ok else None,
        "runs_per_hour": round(len(ok) / max(wall, 1e-9) * 3600),
        "simulated_time_steps": sim_time,
        "simulated_time_unit": getattr(mod, "SIM_TIME_UNIT", "generator calls + training iterations executed"),
        "fault_kinds_fired": faults,
        "probes_hit": probes,
        "counters": other,
        "bookkeeping": {
            "unsupported_programs": sum(1 for r in records if "unsupported" in r),
            "known_finding_runs": n_known,
            "harness_errors": len(errors),
        },
        "components_real": getattr(mod, "REAL", []),
        "components_stub": getattr(mod, "STUB", []),
        "tolerances": getattr(mod, "TOLERANCES", {}),
        "repo": core.repo_dir(),
        "exhaustive": False,
    }
    extra = getattr(mod, "evidence_extra", None)
    if extra:
        cov.update(extra(ok, tier))
    doc = {
        "property_id": prop,
        "tier": tier,
        "seed": seed,
        "level": mod.LEVEL,
        "coverage": cov,
        "assumptions": getattr(mod, "ASSUMPTIONS", []),
        "wall_s": round(wall, 2),
        "violations": n_viol,
    }
    d = os.path.join(core.VERIF_DIR, "evidence")
    os.makedirs(d, exist_ok=True)
    path = os.path.join(d, f"{prop}.json")
    tmp = path + ".tmp"
    with open(tmp, "w") as f:
        json.dump(doc, f, indent=1, sort_keys=True)
    os.replace(tmp, path)
    _validate(path)
    return path


def _validate(path):
    """Schema validation with jsonschema from the tooling venv when present
    (python3-vt); a failure is a harness error, printed, never silent."""
    vt = shutil.which("python3-vt")
    if not vt or not os.path.exists(SCHEMA):
        return
    code = (
        "import json,sys,jsonschema;"
        "jsonschema.validate(json.load(open(sys.argv[1])),json.load(open(sys.argv[2])))"
    )
    try:
        p = subprocess.run([vt, "-c", code, path, SCHEMA], capture_output=True, text=True, timeout=60)
        if p.returncode != 0:
            print(f"HARNESS-ERROR evidence file {path} does not validate: {p.stderr[-800:]}")
    except Exception as e:  # noqa: BLE001
        print(f"note: evidence validation skipped ({e})")
