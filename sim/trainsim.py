"""
trainsim -- the training process of jinns on the iteration clock (C07, C16-C19).

Real components: jinns.solve (its _one_iteration, _gradient_step,
_store_loss_and_params, break_fun), trigger_rar, the generators, the loss
classes, ValidationLoss, optax.  Stubs: tiny MLP PINNs, analytic user
equations, scripted validation modules, fault stages in the optimizer chain,
poisoned tables.

Three executions of one seed-derived program:
  M1  jinns.solve(...)                      compiled lax.while_loop (production)
  M2  jinns.solve(..., obs_batch_sharding)  python while loop, with the module
      level _get_break_fun wrapped so that the simulator is handed the whole
      carry at every iteration boundary (cooperative stepping, no repo change)
  M3  reference(): an independent textbook loop written with the public API.
"""

from __future__ import annotations

import contextlib
import io
import math
from typing import NamedTuple

import numpy as np

import jax
import jax.numpy as jnp
import equinox as eqx
import optax

import jinns
from jinns.loss import ODE, PDEStatio, PDENonStatio
from jinns.parameters import Params, ParamsDict
import jinns.solver._solve as _solve_mod
import jinns.solver._rar as _rar_mod

from sim.core import Violation, HarnessError, Unsupported
from sim import gensim

# ---------------------------------------------------------------------------
# user-side stubs: analytic equations


class OdeLin(ODE):
    """u' + a u - b cos(w t)"""

    w: float = eqx.field(kw_only=True, default=2.0, static=True)

    def equation(self, t, u, params):
        du = jax.grad(lambda tt, p: u(tt, p)[0], 0)(t, params)
        return du + params.eq_params["a"] * u(t, params) - params.eq_params["b"] * jnp.cos(self.w * t)


class OdeVec(ODE):
    """two-component residual: (u0' - a u1, u1' + b u0 - cos(t))"""

    def equation(self, t, u, params):
        tt = jnp.reshape(t, ())
        f = lambda s: u(jnp.reshape(s, jnp.shape(t)), params).reshape(-1)  # noqa: E731
        du = jax.jacfwd(f)(tt)
        uu = f(tt)
        a = jnp.reshape(params.eq_params["a"], ())
        b = jnp.reshape(params.eq_params["b"], ())
        return jnp.stack([du[0] - a * uu[1], du[1] + b * uu[0] - jnp.cos(tt)])


class OdeLog(ODE):
    """u' - log(a) u - b   (a must stay > 0: the 'equation domain' fault)"""

    def equation(self, t, u, params):
        du = jax.grad(lambda tt, p: u(tt, p)[0], 0)(t, params)
        return du - jnp.log(params.eq_params["a"]) * u(t, params) - params.eq_params["b"]


class StatioLin(PDEStatio):
    """a sum_j du/dx_j - b u + sin(sum x)"""

    def equation(self, x, u, params):
        g = jax.grad(lambda xx, p: u(xx, p)[0], 0)(x, params)
        return params.eq_params["a"] * jnp.sum(g) - params.eq_params["b"] * u(x, params) + jnp.sin(jnp.sum(x))


class StatioLap(PDEStatio):
    """a lap(u) + b u - cos(sum x)"""

    def equation(self, x, u, params):
        h = jax.hessian(lambda xx, p: u(xx, p)[0], 0)(x, params)
        return params.eq_params["a"] * jnp.trace(h) + params.eq_params["b"] * u(x, params) - jnp.cos(jnp.sum(x))


class NonStatioAdv(PDENonStatio):
    """u_t + a sum_j u_xj - b u"""

    def equation(self, t, x, u, params):
        ut = jax.grad(lambda tt, xx, p: u(tt, xx, p)[0], 0)(t, x, params)[0]
        ux = jax.grad(lambda tt, xx, p: u(tt, xx, p)[0], 1)(t, x, params)
        return ut + params.eq_params["a"] * jnp.sum(ux) - params.eq_params["b"] * u(t, x, params)


class SysOde1(ODE):
    """u' - a v"""

    def equation(self, t, u_dict, params_dict):
        pu = params_dict.extract_params("u")
        pv = params_dict.extract_params("v")
        du = jax.grad(lambda tt: u_dict["u"](tt, pu)[0])(t)
        return du - params_dict.eq_params["a"] * u_dict["v"](t, pv)


class SysOde2(ODE):
    """v' + b u"""

    def equation(self, t, u_dict, params_dict):
        pu = params_dict.extract_params("u")
        pv = params_dict.extract_params("v")
        dv = jax.grad(lambda tt: u_dict["v"](tt, pv)[0])(t)
        return dv + params_dict.eq_params["b"] * u_dict["u"](t, pu)


def _het_ode(t, u, params):
    return params.eq_params["a"] * (1.0 + 0.1 * jnp.tanh(jnp.sum(t)))


def _het_statio(x, u, params):
    return params.eq_params["a"] * (1.0 + 0.1 * jnp.tanh(jnp.sum(x)))


def _het_nonstatio(t, x, u, params):
    return params.eq_params["a"] * (1.0 + 0.1 * jnp.tanh(jnp.sum(t) + jnp.sum(x)))


def _het(program, fn):
    """eq_params_heterogeneity for parameter 'a' only ('b' is left out, which is documented as legal);
    a fresh dict per build: it is a static field of the equation and must never be written to."""
    return {"eq_params_heterogeneity": {"a": fn}} if program.get("hetero") else {}


EQ_KINDS = ["ode", "odevec", "statio1", "statio2", "nonstatio1", "nonstatio2", "sysode"]

# ---------------------------------------------------------------------------
# fault stages (optax transformations) -- injected through the optimizer
# argument that solve() already accepts


class FaultState(NamedTuple):
    count: jax.Array  # local step counter of the stage
    at: jax.Array  # int32[nf]: iteration at which fault f fires (-1: disarmed)
    val: jax.Array  # float[nf]: the value written (nan / inf)


def fault_stage(leaves_idx):
    """An optax stage with one slot per entry of `leaves_idx` (index into the
    flattened update tree, modulo its length).  WHEN a slot fires and WHAT it
    writes lives in the optimizer *state* (armed by `arm()`), so that every
    fault position of one program shares one compiled training loop."""
    nf = len(leaves_idx)

    def init(params):
        del params
        return FaultState(count=jnp.zeros([], jnp.int32), at=-jnp.ones((nf,), jnp.int32),
                          val=jnp.zeros((nf,), dtype=float))

    def update(updates, state, params=None):
        del params
        leaves, td = jax.tree_util.tree_flatten(updates)
        for f, j in enumerate(leaves_idx):
            j = j % len(leaves)
            x = leaves[j]
            flat = x.reshape(-1)
            poisoned = flat.at[0].set(state.val[f].astype(x.dtype)).reshape(x.shape)
            leaves[j] = jnp.where(state.count == state.at[f], poisoned, x)
        return jax.tree_util.tree_unflatten(td, leaves), FaultState(state.count + 1, state.at, state.val)

    return optax.GradientTransformation(init, update)


def arm(opt_state, faults):
    """Write the (at, value) of every fault into the FaultState slots.  The
    k-th fault of origin 'grad' goes to the k-th slot of the stage chained
    before the real optimizer, likewise 'update' after it."""
    pre = [f for f in faults if f["origin"] == "grad"]
    post = [f for f in faults if f["origin"] == "update"]
    stages = []

    def collect(s):
        if isinstance(s, FaultState):
            stages.append(s)
        return s

    jax.tree_util.tree_map(collect, opt_state, is_leaf=lambda x: isinstance(x, FaultState))
    want = ([pre] if pre else []) + ([post] if post else [])
    if len(stages) != len(want):
        raise HarnessError("fault stages and faults do not match")
    repl = {}
    for st, fl in zip(stages, want):
        at = jnp.asarray([f["at"] for f in fl], jnp.int32)
        val = jnp.asarray([{"nan": np.nan, "inf": np.inf, "-inf": -np.inf}[f["value"]] for f in fl], dtype=float)
        repl[id(st)] = FaultState(st.count, at, val)
    return jax.tree_util.tree_map(lambda s: repl.get(id(s), s) if isinstance(s, FaultState) else s,
                                  opt_state, is_leaf=lambda x: isinstance(x, FaultState))


def make_optimizer(spec, faults=()):
    k = spec["kind"]
    lr = spec["lr"]
    if k == "sgd":
        opt = optax.sgd(lr)
    elif k == "adam":
        opt = optax.adam(lr)
    elif k == "adamw":
        opt = optax.adamw(lr)
    elif k == "chain":
        opt = optax.chain(
            optax.clip_by_global_norm(1.0),
            optax.scale_by_adam(),
            optax.scale_by_schedule(optax.exponential_decay(-lr, 5, 0.7)),
        )
    elif k == "momentum":
        opt = optax.sgd(lr, momentum=0.9)
    elif k == "zero_nans_sgd":
        opt = optax.chain(optax.zero_nans(), optax.sgd(lr))  # a NaN-filtering optimizer: NaN gradients become zero updates
    else:
        raise HarnessError(f"optimizer {k}")
    pre = [f for f in faults if f["origin"] == "grad"]
    post = [f for f in faults if f["origin"] == "update"]
    stages = []
    if pre:
        stages.append(fault_stage([f["leaf_idx"] for f in pre]))
    stages.append(opt)
    if post:
        stages.append(fault_stage([f["leaf_idx"] for f in post]))
    return optax.chain(*stages) if len(stages) > 1 else opt


# ---------------------------------------------------------------------------
# building a training problem from a program


def _mlp(key, din, hidden, dout=1):
    layers = []
    d = din
    for h in hidden:
        layers += [(eqx.nn.Linear, d, h), (jax.nn.tanh,)]
        d = h
    layers.append((eqx.nn.Linear, d, dout))
    return tuple(layers), key


class Problem:
    pass


def data_spec_for(eq, rng, small=True):
    """main generator spec (gensim format) for an equation kind"""
    kind = {"ode": "ode", "odevec": "ode", "sysode": "ode", "statio1": "statio", "statio2": "statio",
            "nonstatio1": "nonstatio", "nonstatio2": "nonstatio"}[eq]
    for _ in range(100):
        s = gensim.gen_task(rng, kind, nmax=14)
        if kind != "ode":
            want = 1 if eq.endswith("1") else 2
            if s["dim"] != want:
                continue
            if s["method"] == "grid" and want == 2:
                continue
        if kind == "nonstatio" and s["bt"] * s["bo"] > 24:
            continue
        return s
    raise HarnessError("could not draw a data spec")


def main_batch_size(dspec):
    k = dspec["kind"]
    if k == "ode":
        return dspec["bt"]
    if k == "statio":
        return dspec["bo"]
    return dspec["bt"] * dspec["bo"] if dspec["cartesian"] else dspec["bo"]


def build(program):
    """Instantiate the real objects of a program.  Everything is derived from
    the explicit program (no PRNG here)."""
    P = Problem()
    eq = program["eq"]
    P.eq = eq
    key = jax.random.PRNGKey(program["net"]["key"])
    hidden = program["net"]["hidden"]
    eqp = {k: jnp.asarray(v, dtype=float) for k, v in program["eq_params"].items()}
    terms = program.get("terms", {})
    dk = program.get("dkeys", "default")
    lw = program.get("weights", {})
    P.system = eq == "sysode"

    if eq in ("ode", "odevec", "sysode"):
        in_dim, eq_type, dim_x = 1, "ODE", 0
    elif eq.startswith("statio"):
        dim_x = int(eq[-1])
        in_dim, eq_type = dim_x, "statio_PDE"
    else:
        dim_x = int(eq[-1])
        in_dim, eq_type = dim_x + 1, "nonstatio_PDE"
    P.dim_x = dim_x

    if not P.system:
        layers, _ = _mlp(key, in_dim, hidden, dout=2 if eq == "odevec" else 1)
        u = jinns.utils.create_PINN(key, layers, eq_type, dim_x)
        P.u = u
        params = Params(nn_params=u.init_params(), eq_params=eqp)
    else:
        k1, k2 = jax.random.split(key)
        layers, _ = _mlp(k1, 1, hidden)
        u = jinns.utils.create_PINN(k1, layers, "ODE")
        v = jinns.utils.create_PINN(k2, layers, "ODE")
        P.u = {"u": u, "v": v}
        params = ParamsDict(nn_params={"u": u.init_params(), "v": v.init_params()}, eq_params=eqp)
    P.params = params

    form = program.get("form", 0)
    if eq in ("ode", "odevec"):
        if eq == "odevec":
            dyn = OdeVec(**_het(program, _het_ode))
        else:
            dyn = OdeLog() if form == "log" else OdeLin(w=2.0 if form == 0 else 3.0, **_het(program, _het_ode))
        if program.get("obs_slice"):
            kw_slice = {"obs_slice": jnp.s_[program["obs_slice"][0]:program["obs_slice"][1]]}
        else:
            kw_slice = {}
        kw = {}
        if dk == "both":
            kw["derivative_keys"] = jinns.parameters.DerivativeKeysODE.from_str(
                params, dyn_loss="both", observations="both", initial_condition="nn_params")
        P.loss = jinns.loss.LossODE(
            u=u, dynamic_loss=dyn,
            initial_condition=(float(program["data"]["tmin"]), jnp.array([0.5, -0.3]) if eq == "odevec" else 0.7) if terms.get("ic", True) else None,
            loss_weights=jinns.loss.LossWeightsODE(dyn_loss=lw.get("dyn", 1.0), initial_condition=lw.get("ic", 1.0), observations=lw.get("obs", 1.0)),
            params=params, **kw, **kw_slice)
    elif eq == "sysode":
        P.loss = jinns.loss.SystemLossODE(
            u_dict=P.u, dynamic_loss_dict={"e1": SysOde1(), "e2": SysOde2()},
            initial_condition_dict={"u": (float(program["data"]["tmin"]), 0.5), "v": (float(program["data"]["tmin"]), -0.3)} if terms.get("ic", True) else None,
            loss_weights=jinns.loss.LossWeightsODEDict(
                dyn_loss=({k: program["weights_dict"][k] for k in program["weights_dict"]["order"]}
                          if program.get("weights_dict") else lw.get("dyn", 1.0)),
                initial_condition=lw.get("ic", 1.0), observations=lw.get("obs", 1.0)),
            params_dict=params)
    elif eq.startswith("statio"):
        dyn = StatioLap(**_het(program, _het_statio)) if form == 1 else StatioLin(**_het(program, _het_statio))
        kw = {}
        if dk == "both":
            kw["derivative_keys"] = jinns.parameters.DerivativeKeysPDEStatio.from_str(
                params, dyn_loss="both", observations="both", boundary_loss="nn_params", norm_loss="nn_params")
        bc = terms.get("bc")
        if bc and program["data"]["bb"] is not None:
            kw.update(omega_boundary_fun=lambda dx: 0.1 * jnp.sum(dx), omega_boundary_condition=bc)
        if terms.get("norm"):
            lo, hi = program["data"]["min_pts"], program["data"]["max_pts"]
            vol = float(np.prod([h - l for l, h in zip(lo, hi)]))
            ns = np.stack([np.linspace(l, h, 5)[[0, 2, 4, 1, 3]] for l, h in zip(lo, hi)], axis=1)
            kw.update(norm_samples=jnp.asarray(ns), norm_int_length=vol)
        P.loss = jinns.loss.LossPDEStatio(
            u=u, dynamic_loss=dyn,
            loss_weights=jinns.loss.LossWeightsPDEStatio(dyn_loss=lw.get("dyn", 1.0), boundary_loss=lw.get("bc", 1.0), norm_loss=lw.get("norm", 1.0), observations=lw.get("obs", 1.0)),
            params=params, **kw)
    else:
        dyn = NonStatioAdv(**_het(program, _het_nonstatio))
        kw = {}
        if dk == "both":
            kw["derivative_keys"] = jinns.parameters.DerivativeKeysPDENonStatio.from_str(
                params, dyn_loss="both", observations="both", boundary_loss="nn_params", norm_loss="nn_params", initial_condition="nn_params")
        bc = terms.get("bc")
        if bc and program["data"]["bb"] is not None:
            kw.update(omega_boundary_fun=lambda t, dx: 0.1 * jnp.sum(dx) + 0.0 * jnp.sum(t), omega_boundary_condition=bc)
        if terms.get("ic", True):
            kw.update(initial_condition_fun=lambda x: jnp.sin(jnp.sum(x)))
        P.loss = jinns.loss.LossPDENonStatio(
            u=u, dynamic_loss=dyn,
            loss_weights=jinns.loss.LossWeightsPDENonStatio(dyn_loss=lw.get("dyn", 1.0), boundary_loss=lw.get("bc", 1.0), initial_condition=lw.get("ic", 1.0), observations=lw.get("obs", 1.0)),
            params=params, **kw)

    # generators
    P.data = build_main_data(program)
    P.param_data = None
    if program.get("param_data"):
        P.param_data = gensim.build_task(program["param_data"])
    P.obs_data = None
    if program.get("obs_data"):
        P.obs_data = build_obs(program)
    # tracked params
    tr = program.get("tracked")
    if tr is None:
        P.tracked = None
    else:
        cls = ParamsDict if P.system else Params
        P.tracked = cls(nn_params=None, eq_params={k: tr.get(k) for k in program["eq_params"]})
    faults = [dict(f) for f in program.get("faults", []) if f["origin"] in ("grad", "update")]
    flat = jax.tree_util.tree_leaves(params)
    n_nn = len(jax.tree_util.tree_leaves(params.nn_params))
    eq_names = sorted(program["eq_params"])
    for f in faults:
        lf = f["leaf"]
        if isinstance(lf, str) and lf.startswith("eq:"):
            f["leaf_idx"] = n_nn + eq_names.index(lf[3:])
        else:
            f["leaf_idx"] = int(str(lf).split(":")[-1]) % n_nn
    assert len(flat) == n_nn + len(eq_names)
    P.faults = faults
    P.optimizer = make_optimizer(program["opt"], faults)
    P.init_opt_state = None
    if faults:
        P.init_opt_state = arm(P.optimizer.init(params), faults)
    return P


def build_main_data(program):
    d = program["data"]
    rar = program.get("rar")
    if not rar:
        return gensim.build_task(d)
    key = jax.random.PRNGKey(d["key"])
    rp = dict(rar["params"])
    if d["kind"] == "ode":
        return jinns.data.DataGeneratorODE(key, d["nt"], d["tmin"], d["tmax"], d["bt"], method=d["method"],
                                           rar_parameters=rp, nt_start=rar["nt_start"])
    if d["kind"] == "statio":
        return jinns.data.CubicMeshPDEStatio(
            key=key, n=d["n"], nb=d["nb"], omega_batch_size=d["bo"], omega_border_batch_size=d["bb"], dim=d["dim"],
            min_pts=tuple(d["min_pts"]), max_pts=tuple(d["max_pts"]), method=d["method"],
            rar_parameters=rp, n_start=rar["n_start"])
    return jinns.data.CubicMeshPDENonStatio(
        key=key, n=d["n"], nb=d["nb"], nt=d["nt"], omega_batch_size=d["bo"], omega_border_batch_size=d["bb"],
        temporal_batch_size=d["bt"], dim=d["dim"], min_pts=tuple(d["min_pts"]), max_pts=tuple(d["max_pts"]),
        tmin=d["tmin"], tmax=d["tmax"], method=d["method"], cartesian_product=d["cartesian"],
        rar_parameters=rp, n_start=rar["n_start"], nt_start=rar["nt_start"])


def build_obs(program):
    """Observation table inside the domain; values from a smooth function; an
    optional NaN row (fault loss-nan-data)."""
    o = program["obs_data"]
    d = program["data"]
    n = o["n"]
    dt = np.float64 if jax.config.jax_enable_x64 else np.float32
    r = np.arange(n, dtype=dt)
    cols = []
    if d["kind"] in ("ode", "nonstatio"):
        cols.append(d["tmin"] + (d["tmax"] - d["tmin"]) * ((r * 0.37 + 0.11) % 1.0))
    if d["kind"] in ("statio", "nonstatio"):
        for j in range(d["dim"]):
            lo, hi = d["min_pts"][j], d["max_pts"][j]
            cols.append(lo + (hi - lo) * ((r * (0.23 + 0.1 * j) + 0.05) % 1.0))
    pin = np.stack(cols, axis=1).astype(dt)
    val = (0.5 * np.sin(pin.sum(axis=1)) + 0.1 * r / max(n, 1)).astype(dt)[:, None]
    if program["eq"] == "odevec" and not program.get("obs_slice"):
        val = np.concatenate([val, (0.3 * np.cos(pin.sum(axis=1))).astype(dt)[:, None]], axis=1)
    if o.get("nan_row") is not None:
        val[o["nan_row"] % n, 0] = np.inf if o.get("nan_value") == "inf" else np.nan
    eq = {}
    for k in o.get("params", []):
        eq[k] = jnp.asarray((program["eq_params"][k] * (1.0 + 0.05 * np.cos(r))).astype(dt))
    key = jax.random.PRNGKey(o["key"])
    if program["eq"] == "sysode":
        return jinns.data.DataGeneratorObservationsMultiPINNs(
            o["b"], {"u": jnp.asarray(pin), "v": None}, {"u": jnp.asarray(val), "v": None},
            observed_eq_params_dict={"u": eq, "v": {}}, key=key)
    return jinns.data.DataGeneratorObservations(key, o["b"], jnp.asarray(pin), jnp.asarray(val), eq)


# ---------------------------------------------------------------------------
# drivers


def _fresh_code_solve():
    """jax (0.11) keys its trace caches on code objects; observation generators
    carry tables as static fields and two different tables must not meet in one
    cache entry.  Dropping the caches between programs keeps the runs
    independent (results are unaffected)."""
    jax.clear_caches()


def call_solve(P, n_iter, params, data, param_data, obs_data, opt_state, validation=None,
               driver="M1", verbose=False, observer=None, print_every=3):
    """Run the real jinns.solve under driver M1 (compiled) or M2 (python loop,
    carry handed to `observer(carry)` at every iteration boundary)."""
    kw = dict(n_iter=n_iter, init_params=params, data=data, loss=P.loss, optimizer=P.optimizer,
              opt_state=opt_state, tracked_params=P.tracked, param_data=param_data, obs_data=obs_data,
              validation=validation, verbose=verbose, print_loss_every=print_every)
    buf = io.StringIO()
    if driver == "M1":
        with contextlib.redirect_stdout(buf):
            out = jinns.solve(**kw)
            jax.effects_barrier()
        return out, buf.getvalue()
    # M2
    orig = _solve_mod._get_break_fun
    if not callable(orig):
        raise HarnessError("seam _get_break_fun missing")

    def wrapped(n_iter_, verbose_):
        bf = orig(n_iter_, verbose_)

        def spy(carry):
            if observer is not None:
                observer(carry)
            return bf(carry)

        return spy

    _solve_mod._get_break_fun = wrapped
    try:
        sh = jax.sharding.SingleDeviceSharding(jax.devices("cpu")[0])
        with contextlib.redirect_stdout(buf):
            out = jinns.solve(obs_batch_sharding=sh, **kw)
            jax.effects_barrier()
    finally:
        _solve_mod._get_break_fun = orig
    return out, buf.getvalue()


# ---------------------------------------------------------------------------
# M3: the reference loop (public API only)


def has_nan(tree):
    return any(bool(np.any(np.isnan(np.asarray(x)))) for x in jax.tree_util.tree_leaves(tree))


def draw(data, param_data, obs_data):
    data, batch = data.get_batch()
    if param_data is not None:
        param_data, pb = param_data.get_batch()
        batch = jinns.data.append_param_batch(batch, pb)
    if obs_data is not None:
        obs_data, ob = obs_data.get_batch()
        batch = jinns.data.append_obs_batch(batch, ob)
    return batch, data, param_data, obs_data


class RefResult:
    pass


def reference(P, n_iter, params, data, param_data, obs_data, opt_state, warmup, on_iter=None, stop_after=None):
    """Textbook loop: draw the next batch, record the loss and its terms at the
    current parameters, apply the optimizer update.  Aborts when a NaN appears
    in the parameters (returning the parameters held before that update).
    `on_iter(i, new_params)` may return True to stop after iteration i (used by
    the validation models)."""
    R = RefResult()
    opt = P.optimizer
    if opt_state is None:
        opt_state = opt.init(params)
    for _ in range(warmup):
        _, data, param_data, obs_data = draw(data, param_data, obs_data)
    loss = P.loss

    @jax.jit
    def step(p, s, batch):
        (val, terms), grads = jax.value_and_grad(lambda pp, bb: loss(pp, bb), has_aux=True)(p, batch)
        updates, s2 = opt.update(grads, s, p)
        p2 = optax.apply_updates(p, updates)
        return val, terms, p2, s2

    R.loss, R.terms, R.params_after, R.batches = [], [], [], []
    R.params_before = []
    last_non_nan = params
    R.stop_reason = "max-iter"
    R.k_fail = None
    i = 0
    while i < n_iter:
        batch, data, param_data, obs_data = draw(data, param_data, obs_data)
        val, terms, p2, s2 = step(params, opt_state, batch)
        R.loss.append(np.asarray(val))
        R.terms.append({k: np.asarray(v) for k, v in terms.items()})
        R.params_before.append(params)
        R.params_after.append(p2)
        R.batches.append(batch)
        opt_state = s2
        nan = has_nan(p2)
        if not nan:
            last_non_nan = p2
        params = p2
        stop = False
        if on_iter is not None:
            stop = bool(on_iter(i, p2))
        i += 1
        if nan:
            R.stop_reason = "nan"
            R.k_fail = i - 1
            break
        if stop:
            R.stop_reason = "early-stop"
            break
    R.n_run = i
    R.params = last_non_nan
    R.final_params = params
    R.opt_state = opt_state
    R.data, R.param_data, R.obs_data = data, param_data, obs_data
    return R


# ---------------------------------------------------------------------------
# conditioning probe


def ill_conditioned(P, n_iter, params, data, param_data, obs_data, opt_state, warmup, R, observed=None, scale=1.0):
    """Could rounding alone explain a numeric mismatch between solve() and the
    reference?  The same reference loop is run again from parameters perturbed
    by a few ulp (relative +-1e-15, 2e-15 in float64): differences of that size
    are what two correct executions of the same loop (compiled as one
    while_loop, or step by step) legitimately differ by.  The run is set aside
    as ill-conditioned when the perturbed references disagree with the
    reference by more than the comparison tolerance, or when that spread is at
    least a tenth of the observed discrepancy `observed = (params, loss)`
    (exploding / chaotic trainings amplify 1e-16 to 1e-8 within a few
    iterations).  A genuine slip (other batch, other slot, stale parameters)
    differs by orders of magnitude more than the spread and is still reported."""
    base = 1e-15 if jax.config.jax_enable_x64 else 1e-6
    a = np.array([float(x) for x in R.loss])
    spread_p, spread_l = 0.0, 0.0
    for eps in (base, -base, 2 * base):
        p2 = jax.tree_util.tree_map(lambda x: x * (1.0 + eps) if jnp.issubdtype(jnp.asarray(x).dtype, jnp.floating) else x, params)
        R2 = reference(P, n_iter, p2, data, param_data, obs_data, opt_state, warmup)
        if R2.n_run != R.n_run:
            return True
        b = np.array([float(x) for x in R2.loss])
        if not close(a, b, scale) or not tree_close(R.final_params, R2.final_params, scale):
            return True
        d = np.abs(a - b)
        d = d[~np.isnan(d)]
        spread_l = max(spread_l, float(d.max()) if d.size else 0.0)
        # both the last parameters and the last NaN-free ones (what solve returns after an abort)
        spread_p = max(spread_p, maxdiff(R.final_params, R2.final_params), maxdiff(R.params, R2.params))
        if not tree_close(R.params, R2.params, scale):
            return True
    if observed is not None:
        obs_p, obs_l = observed
        if obs_p and spread_p >= 0.1 * obs_p:
            return True
        if obs_l and spread_l >= 0.1 * obs_l:
            return True
    return False


# ---------------------------------------------------------------------------
# comparison helpers


def tol():
    if jax.config.jax_enable_x64:
        return 1e-8, 1e-10
    return 5e-3, 1e-4


def close(a, b, scale=1.0):
    a, b = np.asarray(a, dtype=np.float64), np.asarray(b, dtype=np.float64)
    if a.shape != b.shape:
        return False
    rt, at = tol()
    return bool(np.allclose(a, b, rtol=rt * scale, atol=at * scale, equal_nan=True))


def leaf_close(a, b, scale=1.0):
    """Closeness of two parameter tensors in the norm-wise sense: the error of every entry is measured
    against the largest entry of the tensor (rounding errors of a weight matrix are carried by all its
    entries), NaN == NaN and Inf == Inf."""
    a, b = np.asarray(a, dtype=np.float64), np.asarray(b, dtype=np.float64)
    if a.shape != b.shape:
        return False
    if a.size == 0:
        return True
    if not np.array_equal(np.isnan(a), np.isnan(b)) or not np.array_equal(np.isposinf(a), np.isposinf(b)) \
            or not np.array_equal(np.isneginf(a), np.isneginf(b)):
        return False
    fin = np.isfinite(a) & np.isfinite(b)
    if not fin.any():
        return True
    rt, at = tol()
    bound = at * scale + rt * scale * float(np.max(np.abs(b[fin])))
    return bool(np.max(np.abs(a[fin] - b[fin])) <= bound)


def tree_close(a, b, scale=1.0):
    la, ta = jax.tree_util.tree_flatten(a)
    lb, tb = jax.tree_util.tree_flatten(b)
    if ta != tb:
        return False
    return all(leaf_close(x, y, scale) for x, y in zip(la, lb))


def tree_equal(a, b):
    la, ta = jax.tree_util.tree_flatten(a)
    lb, tb = jax.tree_util.tree_flatten(b)
    if ta != tb or len(la) != len(lb):
        return False
    return all(np.array_equal(_arr(x), _arr(y), equal_nan=True) for x, y in zip(la, lb))


def maxdiff(a, b):
    la = jax.tree_util.tree_leaves(a)
    lb = jax.tree_util.tree_leaves(b)
    m = 0.0
    for x, y in zip(la, lb):
        x, y = np.asarray(x, dtype=np.float64), np.asarray(y, dtype=np.float64)
        if x.shape != y.shape:
            return float("inf")
        if x.size:
            d = np.abs(x - y)
            d = d[~np.isnan(d)]
            if d.size:
                m = max(m, float(d.max()))
    return m


def _arr(x):
    """numpy view of a leaf in the float mode of this worker (python scalars
    become float32 in x32 workers, exactly as they do when they cross a jit
    boundary inside solve)."""
    return np.asarray(jnp.asarray(x))


def gen_state(g):
    """Dynamic state of a generator: every array leaf (keys, cursors, stores)."""
    return [_arr(x) for x in jax.tree_util.tree_leaves(g)]


def gen_equal(a, b):
    if a is None or b is None:
        return a is None and b is None
    la, lb = gen_state(a), gen_state(b)
    if len(la) != len(lb):
        return False
    return all(x.shape == y.shape and np.array_equal(x, y, equal_nan=True) for x, y in zip(la, lb))


def fingerprint(params):
    return float(sum(float(np.sum(np.asarray(x, dtype=np.float64))) for x in jax.tree_util.tree_leaves(params)))


# ---------------------------------------------------------------------------
# scripted validation stub (C19, and RAR programs that run together with a validation module)


def scripted_validation(period, script):
    from jinns.validation._validation import AbstractValidationModule

    class Scripted(AbstractValidationModule):
        call_every: int = eqx.field(kw_only=True)
        stops: jax.Array = eqx.field(kw_only=True)
        improved: jax.Array = eqx.field(kw_only=True)
        k: jax.Array = eqx.field(kw_only=True)

        def __call__(self, params):
            L = self.stops.shape[0]
            kk = jnp.minimum(self.k, L - 1)
            fp = sum(jnp.sum(x) for x in jax.tree_util.tree_leaves(params))
            crit = fp + self.k.astype(fp.dtype)
            new = eqx.tree_at(lambda t: t.k, self, self.k + 1)
            return new, self.stops[kk], crit, self.improved[kk]

    return Scripted(call_every=period, stops=jnp.asarray([s["stop"] for s in script]),
                    improved=jnp.asarray([s["improved"] for s in script]), k=jnp.zeros([], jnp.int32))


# ---------------------------------------------------------------------------
# RAR programs (C16 / C17)


def gen_rar_program(rng, r, tier, float_mode="x64"):
    eq = rng.choice(["ode", "odevec", "statio2", "nonstatio2", "sysode"])
    prog = {"float": float_mode, "eq": eq}
    prog["net"] = {"key": rng.randrange(2**31), "hidden": [rng.randint(3, 4)]}
    prog["eq_params"] = {"a": round(rng.uniform(0.5, 1.5), 3), "b": round(rng.uniform(0.5, 1.5), 3)}
    prog["form"] = 0
    if eq != "sysode" and rng.random() < 0.2:
        prog["hetero"] = True  # parameter a depends on the point: the residual that ranks the candidates must use it
    prog["terms"] = {"ic": rng.random() < 0.5, "bc": None, "norm": False}
    prog["weights"] = {}
    prog["dkeys"] = "default"
    prog["opt"] = {"kind": rng.choice(["sgd", "adam"]), "lr": 1e-2}
    prog["param_data"] = None
    prog["obs_data"] = None
    prog["tracked"] = None
    prog["verbose"] = False
    prog["faults"] = []
    key = rng.randrange(2**31)

    def sizes():
        n = rng.randint(6, 24)
        n_start = rng.randint(1, n - 1)
        sel = rng.randint(1, 3)
        samp = sel + rng.randint(0, 5)
        b = rng.randint(1, max(1, min(n_start, 4)))
        return n, n_start, sel, samp, b

    rp = {"start_iter": rng.choice([0, 0, 1, 2, 3, 4, 5, 6, 30]), "update_every": rng.randint(1, 4)}
    rar = {"params": rp}
    if eq in ("ode", "odevec", "sysode"):
        nt, nt_start, sel, samp, bt = sizes()
        rp.update(sample_size_times=samp, selected_sample_size_times=sel)
        rar["nt_start"] = nt_start
        prog["data"] = {"kind": "ode", "key": key, "nt": nt, "bt": bt, "tmin": 0.0, "tmax": float(rng.choice([1, 2])), "method": "uniform"}
    elif eq == "statio2":
        n, n_start, sel, samp, bo = sizes()
        rp.update(sample_size_omega=samp, selected_sample_size_omega=sel)
        rar["n_start"] = n_start
        prog["data"] = {"kind": "statio", "key": key, "n": n, "bo": bo, "dim": 2, "method": "uniform",
                        "min_pts": [-1.0, 0.0], "max_pts": [1.0, 2.0], "nb": None, "bb": None}
    else:
        n, n_start, sel, samp, bo = sizes()
        if rng.random() < 0.4:
            nt, nt_start, selt, sampt, bt = n, n_start, sel, samp, rng.randint(1, max(1, min(n_start, 3)))
            if rng.random() < 0.5:
                nt = n + rng.randint(0, 4)
        else:
            nt, nt_start, selt, sampt, bt = sizes()
        bt = min(bt, 3)
        bo = min(bo, 3)
        rp.update(sample_size_omega=samp, selected_sample_size_omega=sel, sample_size_times=sampt, selected_sample_size_times=selt)
        rar["n_start"], rar["nt_start"] = n_start, nt_start
        prog["data"] = {"kind": "nonstatio", "key": key, "n": n, "bo": bo, "dim": 2, "method": "uniform",
                        "min_pts": [-1.0, 0.0], "max_pts": [1.0, 2.0], "nb": None, "bb": None,
                        "nt": nt, "bt": bt, "tmin": 0.0, "tmax": 1.0, "cartesian": True}
    prog["rar"] = rar
    # horizon: about 40% of the runs exhaust the capacity
    caps = []
    if "nt_start" in rar:
        caps.append((prog["data"]["nt"] - rar["nt_start"]) // rp["selected_sample_size_times"])
    if "n_start" in rar:
        caps.append((prog["data"]["n"] - rar["n_start"]) // rp["selected_sample_size_omega"])
    cap = min(caps)
    need = rp["start_iter"] + cap * rp["update_every"] + 2
    if rng.random() < 0.45 and need <= 26:
        n_iter = need + rng.randint(0, 3)
    else:
        n_iter = rng.randint(4, 16)
    prog["segments"] = [{"n": n_iter}]
    # stop / resume: the generator returned by solve is passed back in (the
    # iteration clock restarts; the refinement count must carry on).  A resumed
    # space-time RAR generator raises on the pinned tree: outside the supported space.
    if eq != "nonstatio2" and n_iter >= 4 and rng.random() < 0.35:
        cut = rng.randint(1, n_iter - 1)
        prog["segments"] = [{"n": cut}, {"n": n_iter - cut, "resume": "full"}]
    prog["driver"] = "M2"
    prog["also_M1"] = rng.random() < 0.3
    # refinement together with a validation module (which never asks to stop): the schedule must not notice
    if rng.random() < 0.25:
        prog["validation"] = {"kind": "scripted", "period": rng.choice([1, 2, 3]),
                              "script": [{"improved": rng.random() < 0.5, "stop": False} for _ in range(3)]}
    return prog


class RarTrace:
    pass


def _snap_data(d):
    s = {"key": np.asarray(d.key).copy(), "rar_iter_nb": int(np.asarray(d.rar_iter_nb)),
         "rar_iter_from_last_sampling": int(np.asarray(d.rar_iter_from_last_sampling))}
    for f in ("times", "p_times", "omega", "p_omega"):
        if hasattr(d, f) and getattr(d, f) is not None:
            s[f] = np.asarray(getattr(d, f)).copy()
    return s


def run_rar(program, P=None):
    """Run the RAR program under M2 (and optionally M1), segment after
    segment (only what solve returned survives between segments).  T.snaps[i]
    = (generator before, generator after) global iteration i, T.params[i]
    likewise, T.events = hook events with global iteration indices, T.bounds =
    (global iteration, generator returned by the previous call, generator at
    the start of the resumed call)."""
    P = P or build(program)
    T = RarTrace()
    T.P = P
    T.hook = bool(getattr(_rar_mod, "_VERIF", False)) and hasattr(_rar_mod, "_VERIF_SINK")

    def one(driver, collect):
        snaps, params, events, bounds = [], [], [], []
        p, d, o = P.params, P.data, None
        offset = 0
        out = None
        for seg in program["segments"]:
            n = seg["n"]
            if T.hook:
                _rar_mod._VERIF_SINK.clear()
            loc_s, loc_p = [], []

            def obs(c):
                loc_s.append(_snap_data(c[4].data))
                loc_p.append(c[2].params)

            vmod = None
            if program.get("validation"):
                vmod = scripted_validation(program["validation"]["period"], program["validation"]["script"])
            out, _ = call_solve(P, n, p, d, None, None, o, validation=vmod, driver=driver, observer=obs if collect else None)
            jax.effects_barrier()
            if T.hook:
                for e in _rar_mod._VERIF_SINK:
                    e = dict(e)
                    e["iteration"] = np.asarray(int(e["iteration"]) + offset)
                    events.append(e)
            if collect:
                if len(loc_s) != n + 1:
                    raise Violation(program.get("prop", "C16"), "iteration-count", "iteration-count/carries", {"got": len(loc_s), "n": n})
                if snaps:
                    # resumed call: what init_rar + the warm-up draw did to the returned generator
                    bounds.append((offset, snaps[-1][1], loc_s[0]))
                for j in range(n):
                    snaps.append((loc_s[j], loc_s[j + 1]))
                    params.append((loc_p[j], loc_p[j + 1]))
            p, d, o = out[0], out[3], out[5]
            offset += n
        return out, snaps, params, events, bounds

    T.out, T.snaps, T.params, T.events, T.bounds = one("M2", True)
    T.m1 = None
    if program.get("also_M1"):
        T.m1, _, _, T.events_m1, _ = one("M1", False)
    return T
