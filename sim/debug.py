"""Debug helper: python sim/debug.py <PROP> <run> [tier] -- run one index in-process, print program and result."""
import os, sys, json, warnings
HERE = os.path.dirname(os.path.abspath(__file__))
sys.path.insert(0, os.path.dirname(HERE))
os.environ.setdefault("JAX_PLATFORMS", "cpu")
os.environ.setdefault("JINNS_VERIF", "1")
warnings.simplefilter("ignore")
import importlib
from sim import core, worker
prop, r = sys.argv[1], int(sys.argv[2])
tier = sys.argv[3] if len(sys.argv) > 3 else "quick"
mod = importlib.import_module(f"sim.props.{prop}")
import jax
jax.config.update("jax_enable_x64", mod.float_mode(r) == "x64")
prog = mod.generate(core.run_rng(core.verif_seed(), prop, r), tier, r)
print(json.dumps(prog)[:3000])
ctx, v = worker.execute_guarded(mod, prog)
print("violation:", v.to_json() if v else None)
print("stats:", ctx.stats, "nontrivial", ctx.nontrivial)
