"""
Parent process of the simulator.  Usage (cwd=/verif):

    ./check <ID> [quick|thorough]        run the check of one property
    ./check <ID> --replay <file>         re-execute a replay file in a fresh worker
    ./check selftest determinism [ID..]  digests identical across processes / job counts / hash seeds
    ./check selftest mutants [name..]    sensitivity: every seeded mutant must be caught and replay

Exit codes: 0 property held on everything explored (or only KNOWN-FINDINGs),
1 at least one VIOLATION line, 2 HARNESS-ERROR (our fault; never reported as a
violation and never as success).
"""

from __future__ import annotations

import importlib
import json
import os
import subprocess
import sys
import time

HERE = os.path.dirname(os.path.abspath(__file__))
sys.path.insert(0, os.path.dirname(HERE))

from sim import core  # noqa: E402

PY = os.environ.get("VERIF_PYTHON", "/venv/bin/python")
CLAIMED = ["C07", "C08", "C09", "C14", "C15", "C16", "C17", "C18", "C19", "C20"]


def worker_env(hashseed="0"):
    env = dict(os.environ)
    env["PYTHONHASHSEED"] = hashseed
    env["JAX_PLATFORMS"] = "cpu"
    env["JINNS_VERIF"] = "1"
    env["XLA_FLAGS"] = (
        "--xla_cpu_multi_thread_eigen=false intra_op_parallelism_threads=1"
    )
    env["OMP_NUM_THREADS"] = "1"
    env["PYTHONPATH"] = core.repo_dir() + os.pathsep + core.VERIF_DIR
    env["VERIF_REPO"] = core.repo_dir()
    env.pop("JAX_COMPILATION_CACHE_DIR", None)  # set per job in run_jobs (never shared by two live processes)
    env["PYTHONDONTWRITEBYTECODE"] = "1"
    env["TF_CPP_MIN_LOG_LEVEL"] = "3"
    return env


def _chunks(runs, n):
    n = max(1, min(n, len(runs)))
    return [runs[i::n] for i in range(n)]


def run_jobs(jobs, njobs, hashseed="0", label=""):
    """Run worker jobs with at most njobs concurrent interpreters.  Returns the
    list of records (all jobs) and a list of harness errors."""
    os.makedirs(os.path.join(core.OUT_DIR, "jobs"), exist_ok=True)
    pending = list(enumerate(jobs))
    running = []
    records, errors = [], []
    env = worker_env(hashseed)
    tag = f"{os.getpid()}-{int(time.time()*1000)%100000000}"
    while pending or running:
        while pending and len(running) < njobs:
            idx, job = pending.pop(0)
            jp = os.path.join(core.OUT_DIR, "jobs", f"{tag}-{label}{idx}.job.json")
            op = os.path.join(core.OUT_DIR, "jobs", f"{tag}-{label}{idx}.out.jsonl")
            ep = os.path.join(core.OUT_DIR, "jobs", f"{tag}-{label}{idx}.err.txt")
            job = dict(job, out=op)
            json.dump(job, open(jp, "w"))
            jenv = env
            if job.get("cache_key"):
                # JAX's persistent compilation cache is not safe for concurrent writers/readers (a worker
                # segfaulted reading an entry another one was writing): each job has a private directory,
                # reused only by the identical job of a later invocation
                jenv = dict(env, JAX_COMPILATION_CACHE_DIR=os.path.join(core.OUT_DIR, "cache", job["cache_key"]))
            p = subprocess.Popen(
                [PY, os.path.join(HERE, "worker.py"), jp],
                env=jenv,
                stdout=open(ep + ".stdout", "w"),
                stderr=open(ep, "w"),
                cwd=core.VERIF_DIR,
            )
            running.append((p, job, jp, op, ep, time.time()))
        still = []
        for p, job, jp, op, ep, t0 in running:
            rc = p.poll()
            if rc is None:
                if time.time() - t0 > job.get("kill_s", 3600):
                    p.kill()
                    errors.append(f"worker timeout after {job.get('kill_s')}s runs={job.get('runs', [])[:5]}..")
                    _collect(op, records, errors, job)
                    _cleanup(jp, op, ep)
                else:
                    still.append((p, job, jp, op, ep, t0))
                continue
            _collect(op, records, errors, job)
            if rc != 0:
                tail = ""
                try:
                    txt = open(ep).read()
                    tail = txt if len(txt) < 2600 else txt[:600] + "\n[...]\n" + txt[-2000:]
                except OSError:
                    pass
                errors.append(f"worker exit {rc}: {tail}")
            _cleanup(jp, op, ep)
        running = still
        if running:
            time.sleep(0.05)
    return records, errors


def _collect(op, records, errors, job):
    seen = set()
    try:
        for line in open(op):
            try:
                rec = json.loads(line)
            except json.JSONDecodeError:
                continue
            records.append(rec)
            seen.add(rec.get("r"))
            if "harness_error" in rec:
                errors.append(f"run {rec.get('r')}: {rec['harness_error']}")
    except OSError:
        pass
    if job.get("mode") == "run":
        missing = [r for r in job["runs"] if r not in seen]
        if missing:
            errors.append(f"runs without result: {missing[:10]}{'...' if len(missing)>10 else ''}")


def _cleanup(*paths):
    for p in paths:
        for q in (p, p + ".stdout"):
            try:
                os.remove(q)
            except OSError:
                pass


# ---------------------------------------------------------------------------


def make_jobs(mod, prop, seed, tier, runs, njobs, minimise=True):
    by_mode = {}
    for r in runs:
        by_mode.setdefault(mod.float_mode(r), []).append(r)
    jobs = []
    total = len(runs)
    per_run = getattr(mod, "EXPECTED_S_PER_RUN", 1.0)
    for fm, rs in sorted(by_mode.items()):
        k = max(1, round(2 * njobs * len(rs) / max(1, total)))
        # bound the number of programs per interpreter (in-memory jit caches grow with every program)
        k = max(k, -(-len(rs) // getattr(mod, "MAX_CHUNK", 80)))
        if getattr(mod, "CHUNKING", "strided") == "contiguous":
            # runs that share a compiled program sit next to each other: keep them in one interpreter
            size = -(-len(rs) // k)
            chunk_list = [rs[i:i + size] for i in range(0, len(rs), size)]
        else:
            chunk_list = _chunks(rs, k)
        for ch in chunk_list:
            exp = 60 + per_run * len(ch)
            import hashlib as _h

            ck = None
            if tier == "quick":
                ck = f"{prop}/{fm}-" + _h.sha1(json.dumps([seed, ch]).encode()).hexdigest()[:12]
            jobs.append(
                {
                    "cache_key": ck,
                    "mode": "run",
                    "prop": prop,
                    "seed": seed,
                    "tier": tier,
                    "float": fm,
                    "runs": ch,
                    "samples": runs[:3],
                    "minimise": minimise,
                    "hang_s": int(exp * 10),
                    "kill_s": int(exp * 12),
                }
            )
    # longest first
    jobs.sort(key=lambda j: -len(j["runs"]))
    return jobs


def check(prop, tier, njobs=None, write_evidence=True, quiet=False, runs=None, minimise=True):
    t0 = time.time()
    seed = core.verif_seed()
    njobs = njobs or int(os.environ.get("VERIF_JOBS", "16"))
    mod = importlib.import_module(f"sim.props.{prop}")
    if runs is None:
        runs = list(range(mod.TIERS[tier]))
    if not quiet:
        print(f"[{prop}] VERIF_SEED={seed} tier={tier} runs={len(runs)} jobs={njobs} repo={core.repo_dir()}", flush=True)
    jobs = make_jobs(mod, prop, seed, tier, runs, njobs, minimise)
    records, errors = run_jobs(jobs, njobs)
    records.sort(key=lambda r: r.get("r", -1))
    wall = time.time() - t0

    known, _fixed = core.load_known_findings()
    n_viol = 0
    n_known = 0
    lines = []
    seen_known = set()
    new_viol = []
    for rec in records:
        v = rec.get("violation")
        if not v:
            continue
        k = core.match_known(known, prop, v["signature"])
        if k:
            n_known += 1
            if k["sig"] not in seen_known:
                seen_known.add(k["sig"])
                lines.append(f"KNOWN-FINDING: property={prop} {k['text']} (sig={k['sig']}, e.g. replay={rec.get('replay')})")
        else:
            new_viol.append(rec)
    # every reported violation is re-executed from its replay file in a FRESH interpreter before it is
    # printed: first the program alone; if that does not fail, together with the runs that preceded it in
    # its worker (state left in the process by earlier programs is part of the history)
    status = verify_replays(prop, new_viol) if new_viol else {}
    unverified = 0
    for rec in new_viol:
        v = rec["violation"]
        st = status.get(rec["r"], "not-checked")
        if st in ("reproduced", "reproduced-with-history"):
            n_viol += 1
            lines.append(f"VIOLATION property={prop} replay={rec.get('replay')}")
            lines.append(f"  invariant={v['invariant_id']} signature={v['signature']} run={rec['r']} seed={seed} replay_check={st}")
        elif st == "not-checked":
            n_viol += 1
            lines.append(f"  further violating run {rec['r']}: invariant={v['invariant_id']} signature={v['signature']} replay={rec.get('replay')}")
        else:
            unverified += 1
            lines.append(f"UNREPRODUCED property={prop} run={rec['r']} invariant={v['invariant_id']} replay={rec.get('replay')} (failed in its worker, not in a fresh interpreter, even with its history)")
    if unverified and not any(s in ("reproduced", "reproduced-with-history") for s in status.values()):
        errors.append(f"{unverified} violation(s) could not be reproduced from their replay files in a fresh interpreter: nondeterminism in the harness or in the code")
    elif new_viol and not any(s in ("reproduced", "reproduced-with-history") for s in status.values()):
        errors.append("violations found but none was replay-checked")
    if write_evidence and not os.environ.get("VERIF_NO_EVIDENCE"):
        from sim import evidence

        evidence.write(mod, prop, tier, seed, records, errors, wall, n_viol, n_known)
    if not quiet:
        for ln in lines[:80]:
            print(ln)
        if len(lines) > 80:
            print(f"... {len(lines)-80} more lines")
    if errors:
        for e in errors[:10]:
            print(f"HARNESS-ERROR {prop}: {e[:1500]}")
        return 2, records
    ok_runs = sum(1 for r in records if "digest" in r)
    if not quiet:
        print(f"[{prop}] runs={ok_runs} violations={n_viol} known={n_known} unsupported={sum(1 for r in records if 'unsupported' in r)} wall={wall:.1f}s")
    return (1 if n_viol else 0), records


def verify_replays(prop, recs, max_checked=6, per_invariant=2):
    """Replay a selection of violation records in fresh worker processes."""
    chosen, per = [], {}
    for rec in recs:
        inv = rec["violation"]["invariant_id"]
        if per.get(inv, 0) < per_invariant and len(chosen) < max_checked and rec.get("replay"):
            per[inv] = per.get(inv, 0) + 1
            chosen.append(rec)

    def jobs_for(rs):
        out = []
        for rec in rs:
            doc = json.load(open(rec["replay"]))
            out.append({"mode": "replay", "prop": prop, "seed": core.verif_seed(), "tier": "quick",
                        "float": doc.get("float", doc["program"].get("float", "x64")),
                        "replay": os.path.abspath(rec["replay"]), "hang_s": 3000, "kill_s": 3300})
        return out

    def same(rr, rec):
        v = rr.get("violation")
        return bool(v) and v["invariant_id"] == rec["violation"]["invariant_id"] and v["signature"] == rec["violation"]["signature"]

    status = {}
    recs1, _ = run_jobs(jobs_for(chosen), min(len(chosen), int(os.environ.get("VERIF_JOBS", "16"))), label="vfy")
    by_path = {}
    for rr in recs1:
        by_path[rr.get("r")] = rr
    retry = []
    for rec in chosen:
        rr = by_path.get(rec["r"])
        if rr is not None and same(rr, rec):
            status[rec["r"]] = "reproduced"
        else:
            retry.append(rec)
    for rec in retry:
        doc = json.load(open(rec["replay"]))
        doc["history"] = rec.get("history")
        doc["history_note"] = "the program alone does not fail in a fresh interpreter; it fails after the listed runs of the same worker (state left in the process)"
        json.dump(doc, open(rec["replay"], "w"), indent=1, sort_keys=True)
    if retry:
        recs2, _ = run_jobs(jobs_for(retry), min(len(retry), int(os.environ.get("VERIF_JOBS", "16"))), label="vfyh")
        by2 = {rr.get("r"): rr for rr in recs2}
        for rec in retry:
            rr = by2.get(rec["r"])
            status[rec["r"]] = "reproduced-with-history" if (rr is not None and same(rr, rec)) else "unreproduced"
    return status


def replay(prop, path):
    seed = core.verif_seed()
    doc = json.load(open(path))
    job = {
        "mode": "replay",
        "prop": prop,
        "seed": seed,
        "tier": "quick",
        "float": doc.get("float", doc["program"].get("float", "x64")),
        "replay": os.path.abspath(path),
        "hang_s": 1800,
        "kill_s": 2000,
    }
    records, errors = run_jobs([job], 1, label="replay")
    if errors or not records:
        for e in errors:
            print(f"HARNESS-ERROR {prop}: {e[:1500]}")
        return 2
    rec = records[0]
    v, exp = rec.get("violation"), rec.get("expected")
    if v is None:
        if rec.get("set_aside"):
            print(f"[{prop}] replay set aside, not a violation: {rec['set_aside']}")
        print(f"[{prop}] replay did not fail: property holds on this tree for {path}")
        return 0
    same = exp and v["invariant_id"] == exp["invariant_id"] and v["signature"] == exp["signature"]
    print(f"VIOLATION property={prop} replay={os.path.abspath(path)}")
    print(f"  invariant={v['invariant_id']} signature={v['signature']} reproduced_exactly={bool(same)} digest_equal={rec.get('digest') == doc.get('digest')}")
    print("  details=" + json.dumps(v.get("details"))[:1500])
    return 1


def main(argv):
    if not argv:
        print(__doc__)
        return 2
    if argv[0] == "selftest":
        from sim import selftest

        return selftest.main(argv[1:])
    prop = argv[0]
    if prop not in CLAIMED:
        print(f"unknown or unclaimed property {prop}")
        return 2
    if len(argv) >= 3 and argv[1] == "--replay":
        return replay(prop, argv[2])
    tier = argv[1] if len(argv) > 1 else os.environ.get("VERIF_TIER", "quick")
    if tier not in ("quick", "thorough"):
        tier = "quick"
    rc, _ = check(prop, tier)
    return rc


if __name__ == "__main__":
    sys.exit(main(sys.argv[1:]))
