"""
Self-tests of the machinery.

  ./check selftest determinism [ID ...] [--runs N]
      every run index executed (a) in a batch of 16 workers, (b) with 1 worker
      and a different chunking, (c) under PYTHONHASHSEED=1234: digests must be
      identical.
  ./check selftest mutants [name ...] [--tier quick]
      for every mutants/<ID>-<name>.patch (and seeded/<id>/patch.diff): scratch
      worktree of /repo + patch, the property's check must exit 1 with a
      VIOLATION line, and replaying the first replay file must fail the same way.
"""

from __future__ import annotations

import glob
import importlib
import json
import os
import re
import shutil
import subprocess
import sys
import time

from sim import core


def _digests(prop, runs, njobs, hashseed, chunks=None):
    from sim import main

    mod = importlib.import_module(f"sim.props.{prop}")
    jobs = main.make_jobs(mod, prop, core.verif_seed(), "quick", runs, chunks or njobs, minimise=False)
    recs, errs = main.run_jobs(jobs, njobs, hashseed=hashseed, label="det")
    return {r["r"]: r.get("digest") for r in recs if "digest" in r}, errs


def determinism(args):
    from sim import main

    nruns = 48
    if "--runs" in args:
        i = args.index("--runs")
        nruns = int(args[i + 1])
        args = args[:i] + args[i + 2:]
    props = args or main.CLAIMED
    bad = 0
    for prop in props:
        mod = importlib.import_module(f"sim.props.{prop}")
        total = mod.TIERS["quick"]
        step = max(1, total // nruns)
        runs = list(range(0, total, step))[:nruns]
        t0 = time.time()
        a, e1 = _digests(prop, runs, 16, "0")
        b, e2 = _digests(prop, runs, 3, "0", chunks=2)
        c, e3 = _digests(prop, runs, 16, "1234")
        errs = e1 + e2 + e3
        diff = [r for r in runs if not (a.get(r) == b.get(r) == c.get(r)) or a.get(r) is None]
        print(f"[determinism] {prop}: runs={len(runs)} x3 executions, mismatches={len(diff)} harness_errors={len(errs)} wall={time.time()-t0:.0f}s")
        for r in diff[:5]:
            print(f"   run {r}: 16jobs={a.get(r)} 3jobs={b.get(r)} hashseed1234={c.get(r)}")
        for e in errs[:3]:
            print("   HARNESS-ERROR", e[:400])
        bad += len(diff) + len(errs)
    return 0 if bad == 0 else 2


def _mutant_files(names):
    out = []
    for p in sorted(glob.glob(os.path.join(core.VERIF_DIR, "mutants", "*.patch"))):
        base = os.path.basename(p)[:-6]
        m = re.match(r"(C\d+(?:\+C\d+)*)-(.*)$", base)
        if m:
            out.append((base, m.group(1).split("+"), p))
    for d in sorted(glob.glob(os.path.join(core.VERIF_DIR, "seeded", "*"))):
        p = os.path.join(d, "patch.diff")
        meta = os.path.join(d, "meta.json")
        if os.path.exists(p) and os.path.exists(meta):
            mj = json.load(open(meta))
            props = mj.get("caught_by") or ([mj["property"]] if isinstance(mj.get("property"), str) else mj.get("property", []))
            out.append(("seeded/" + os.path.basename(d), props, p))
    if names:
        out = [x for x in out if any(n in x[0] for n in names)]
    return out


def run_mutant(name, props, patch, tier="quick", keep=False):
    scratch = f"/var/tmp/jinns-mut-{os.getpid()}-{re.sub(r'[^A-Za-z0-9]', '_', name)}"
    outdir = scratch + "-out"
    shutil.rmtree(scratch, ignore_errors=True)
    subprocess.run(["git", "-C", "/repo", "worktree", "prune"], capture_output=True)
    p = subprocess.run(["git", "-C", "/repo", "worktree", "add", "--detach", scratch, "HEAD"], capture_output=True, text=True)
    if p.returncode != 0:
        return {"name": name, "error": "worktree: " + p.stderr[-300:]}
    res = {"name": name, "props": props, "caught_by": [], "replayed": []}
    try:
        p = subprocess.run(["git", "-C", scratch, "apply", patch], capture_output=True, text=True)
        if p.returncode != 0:
            res["error"] = "patch does not apply: " + p.stderr[-300:]
            return res
        env = dict(os.environ, VERIF_REPO=scratch, VERIF_OUT=outdir, VERIF_NO_EVIDENCE="1")
        for prop in props:
            t0 = time.time()
            q = subprocess.run([os.path.join(core.VERIF_DIR, "check"), prop, tier], env=env, capture_output=True, text=True)
            viol = [l for l in q.stdout.splitlines() if l.startswith("VIOLATION")]
            res.setdefault("wall", {})[prop] = round(time.time() - t0, 1)
            res.setdefault("exit", {})[prop] = q.returncode
            if q.returncode == 1 and viol:
                res["caught_by"].append(prop)
                m = re.search(r"replay=(\S+)", viol[0])
                if m:
                    rp = subprocess.run([os.path.join(core.VERIF_DIR, "check"), prop, "--replay", m.group(1)], env=env, capture_output=True, text=True)
                    ok = rp.returncode == 1 and "reproduced_exactly=True" in rp.stdout
                    res["replayed"].append(prop if ok else f"{prop}:FAILED")
                sigs = sorted({l.split("signature=")[1].split()[0] for l in q.stdout.splitlines() if "signature=" in l})
                res.setdefault("signatures", {})[prop] = sigs[:6]
            elif q.returncode == 2:
                res.setdefault("harness", {})[prop] = (q.stdout[-600:] + q.stderr[-300:])
    finally:
        if not keep:
            subprocess.run(["git", "-C", "/repo", "worktree", "remove", "--force", scratch], capture_output=True)
            shutil.rmtree(scratch, ignore_errors=True)
            shutil.rmtree(outdir, ignore_errors=True)
            subprocess.run(["git", "-C", "/repo", "worktree", "prune"], capture_output=True)
    return res


def mutants(args):
    tier = "quick"
    if "--tier" in args:
        i = args.index("--tier")
        tier = args[i + 1]
        args = args[:i] + args[i + 2:]
    names = [a for i, a in enumerate(args) if not a.startswith("--") and (i == 0 or args[i - 1] != "--parallel")]
    files = _mutant_files(names)
    if not files:
        print("no mutants selected")
        return 2
    missed = 0
    results = []
    par = 1
    if "--parallel" in args:
        i = args.index("--parallel")
        par = int(args[i + 1])
    if par > 1:
        from concurrent.futures import ThreadPoolExecutor

        os.environ["VERIF_JOBS"] = str(max(2, 16 // par))
        with ThreadPoolExecutor(par) as ex:
            futs = [ex.submit(run_mutant, name, props, patch, tier) for name, props, patch in files]
            done = [f.result() for f in futs]
    else:
        done = [run_mutant(name, props, patch, tier) for name, props, patch in files]
    for (name, props, patch), r in zip(files, done):
        results.append(r)
        ok = bool(r.get("caught_by")) and all(":FAILED" not in x for x in r.get("replayed", [])) and r.get("replayed")
        print(f"[mutant] {name}: {'CAUGHT' if ok else 'MISSED'} by={r.get('caught_by')} replay={r.get('replayed')} exit={r.get('exit')} wall={r.get('wall')} {r.get('error','')}")
        for p, s in (r.get("signatures") or {}).items():
            print(f"     {p}: {s}")
        for p, s in (r.get("harness") or {}).items():
            print(f"     HARNESS {p}: {s[-400:]}")
        if not ok:
            missed += 1
    os.makedirs(core.OUT_DIR, exist_ok=True)
    json.dump(results, open(os.path.join(core.OUT_DIR, "mutants_last.json"), "w"), indent=1)
    print(f"[mutants] {len(files)-missed}/{len(files)} caught with replay")
    return 0 if missed == 0 else 1


def main(argv):
    if not argv:
        print(__doc__)
        return 2
    if argv[0] == "determinism":
        return determinism(argv[1:])
    if argv[0] == "mutants":
        return mutants(argv[1:])
    print(__doc__)
    return 2
