"""
puritysim -- seeded call orders on shared objects (C20).

One set of real objects (loss, parameters, batch with/without parameter and
observation parts, generators in some reached state) and a seeded sequence of
calls over {evaluate eager, evaluate under jit, loss.__call__, value_and_grad
eager / jitted, get_batch eager / jitted}.  Before and after every call a deep
snapshot of every argument is compared; answers are compared across repeats
and across execution modes.
"""

from __future__ import annotations

import dataclasses
import hashlib

import numpy as np

import jax
import jax.numpy as jnp
import equinox as eqx

import jinns
from jinns.loss import PDEStatio
from jinns.parameters import ParamsDict

from sim.core import Violation, HarnessError, Unsupported
from sim import trainsim as ts, gensim

CALL_KINDS = ["E", "J", "j", "C", "G", "H", "B", "K"]
DESCR = {"E": "evaluate eager", "J": "evaluate under jax.jit (loss passed as an argument, as solve does)",
         "j": "evaluate under jax.jit (loss closed over)", "C": "loss.__call__ eager", "G": "value_and_grad eager (primal)",
         "H": "value_and_grad under jit (primal, loss passed as an argument)", "B": "get_batch eager", "K": "get_batch under jit"}


class SysPde1(PDEStatio):
    """u_x - a v"""

    def equation(self, x, u_dict, pd):
        pu, pv = pd.extract_params("u"), pd.extract_params("v")
        du = jax.grad(lambda xx: u_dict["u"](xx, pu)[0])(x)[0]
        return du - pd.eq_params["a"] * u_dict["v"](x, pv)


class SysPde2(PDEStatio):
    """v_x + b u"""

    def equation(self, x, u_dict, pd):
        pu, pv = pd.extract_params("u"), pd.extract_params("v")
        dv = jax.grad(lambda xx: u_dict["v"](xx, pv)[0])(x)[0]
        return dv + pd.eq_params["b"] * u_dict["u"](x, pu)


def build_syspde(program):
    P = ts.Problem()
    P.eq = "syspde"
    P.system = True
    key = jax.random.PRNGKey(program["net"]["key"])
    k1, k2 = jax.random.split(key)
    layers, _ = ts._mlp(k1, 1, program["net"]["hidden"])
    u = jinns.utils.create_PINN(k1, layers, "statio_PDE", 1)
    v = jinns.utils.create_PINN(k2, layers, "statio_PDE", 1)
    P.u = {"u": u, "v": v}
    eqp = {k: jnp.asarray(vv, dtype=float) for k, vv in program["eq_params"].items()}
    P.params = ParamsDict(nn_params={"u": u.init_params(), "v": v.init_params()}, eq_params=eqp)
    kw = {}
    if program["terms"].get("bc") and program["data"]["bb"] is not None:
        kw.update(omega_boundary_fun_dict={"u": lambda dx: 0.1 * jnp.sum(dx), "v": None},
                  omega_boundary_condition_dict={"u": program["terms"]["bc"], "v": None})
    P.loss = jinns.loss.SystemLossPDE(
        u_dict=P.u, dynamic_loss_dict={"e1": SysPde1(), "e2": SysPde2()},
        loss_weights=jinns.loss.LossWeightsPDEDict(dyn_loss=1.0, norm_loss=1.0, boundary_loss=1.0, observations=1.0, initial_condition=1.0),
        params_dict=P.params, **kw)
    P.data = gensim.build_task(program["data"])
    P.param_data = gensim.build_task(program["param_data"]) if program.get("param_data") else None
    P.obs_data = None
    if program.get("obs_data"):
        o = program["obs_data"]
        d = program["data"]
        n = o["n"]
        r = np.arange(n, dtype=np.float64 if jax.config.jax_enable_x64 else np.float32)
        pin = (d["min_pts"][0] + (d["max_pts"][0] - d["min_pts"][0]) * ((r * 0.37 + 0.11) % 1.0))[:, None]
        val = (0.5 * np.sin(pin[:, 0]))[:, None]
        P.obs_data = jinns.data.DataGeneratorObservationsMultiPINNs(
            o["b"], {"u": jnp.asarray(pin), "v": None}, {"u": jnp.asarray(val), "v": None}, key=jax.random.PRNGKey(o["key"]))
    P.tracked = None
    return P


# ---------------------------------------------------------------------------
# deep snapshots


def describe(x, depth=0):
    """Nested, comparable description of an object graph: bytes/dtype/shape of
    arrays, structure, identity + contents of python containers."""
    if depth > 40:
        raise HarnessError("object graph too deep")
    if isinstance(x, (jax.Array, np.ndarray, np.generic)):
        a = np.asarray(x)
        return ("A", str(a.dtype), a.shape, hashlib.sha1(np.ascontiguousarray(a).tobytes()).hexdigest())
    if x is None or isinstance(x, (bool, int, float, str, complex)):
        return ("S", type(x).__name__, repr(x))
    if isinstance(x, dict):
        return ("D", id(x), tuple((repr(k), describe(v, depth + 1)) for k, v in x.items()))
    if isinstance(x, (list, tuple)):
        return ("L", type(x).__name__, id(x) if isinstance(x, list) else 0, tuple(describe(v, depth + 1) for v in x))
    if isinstance(x, eqx.Module) or dataclasses.is_dataclass(x):
        out = []
        for f in dataclasses.fields(x):
            if hasattr(x, f.name):
                out.append((f.name, describe(getattr(x, f.name), depth + 1)))
        return ("M", type(x).__name__, tuple(out))
    if isinstance(x, slice) or x is Ellipsis:
        return ("S", "slice", repr(x))
    if callable(x):
        return ("F", getattr(x, "__qualname__", type(x).__name__), id(x))
    return ("O", type(x).__name__, repr(x)[:80])


def first_difference(a, b, path=""):
    if a == b:
        return None
    if type(a) is not type(b) or not isinstance(a, tuple) or len(a) != len(b) or a[0] != b[0]:
        return path, a if not isinstance(a, tuple) else a[:3], b if not isinstance(b, tuple) else b[:3]
    tag = a[0]
    if tag == "A":
        return path, a[1:3], b[1:3]
    if tag in ("D", "M", "L"):
        if tag == "D" and a[1] != b[1]:
            return path + "<identity>", a[1], b[1]
        xs, ys = a[-1], b[-1]
        if len(xs) != len(ys):
            return path + "<length>", len(xs), len(ys)
        for x, y in zip(xs, ys):
            if tag == "L":
                d = first_difference(x, y, path + "[]")
            else:
                if x[0] != y[0]:
                    return path + "<keys>", x[0], y[0]
                d = first_difference(x[1], y[1], path + "." + str(x[0]).strip("'"))
            if d:
                return d
    return path, a[:3], b[:3]


# ---------------------------------------------------------------------------


def gen_program(rng, r, tier, float_mode):
    from sim.props import C07

    eq = rng.choice(ts.EQ_KINDS + ["syspde", "syspde"])
    if eq == "syspde":
        prog = C07.gen_training_program(rng, r, tier, eqs=["statio1"], allow_segments=False)
        prog["eq"] = "syspde"
        prog["terms"]["norm"] = False
        prog["dkeys"] = "default"
        if prog.get("obs_data"):
            prog["obs_data"]["params"] = []
    else:
        prog = C07.gen_training_program(rng, r, tier, eqs=[eq], allow_segments=False)
    prog["float"] = float_mode
    for k in ("segments", "driver", "verbose", "tracked", "faults", "opt"):
        prog.pop(k, None)
    prog["draws"] = rng.choice([0, 0, 0, 1, 2, 3, 4, 5])
    n = rng.randint(3, 12 if tier == "quick" else 24)
    palette = rng.choice([CALL_KINDS, ["E", "J", "B"], ["E", "G", "H"], ["C", "J", "K", "B"], ["E", "E", "J", "J"], ["G", "H", "K"],
                          ["E", "j", "J"], ["B", "K"]])
    prog["calls"] = [rng.choice(palette) for _ in range(n)]
    return prog


def run(program, ctx, prop="C20"):
    eq = program["eq"]
    P = build_syspde(program) if eq == "syspde" else ts.build(dict(program, opt={"kind": "sgd", "lr": 1e-2}))
    data, pdata, odata = P.data, P.param_data, P.obs_data
    for _ in range(program.get("draws", 0)):
        _, data, pdata, odata = ts.draw(data, pdata, odata)
    # the state on which get_batch is exercised, and the batch on which the loss is evaluated
    batch, data2, pdata2, odata2 = ts.draw(data, pdata, odata)
    params, loss = P.params, P.loss
    objs = {"params": params, "batch": batch, "loss": loss, "data": data, "param_data": pdata, "obs_data": odata}
    parts = ("P" if pdata is not None else "") + ("O" if odata is not None else "")

    def fail(inv, what, details, step):
        raise Violation(prop, inv, f"{prop}.{inv}/{eq}/{parts or '-'}/{what}", details, step)

    jit_eval_closure = jax.jit(lambda p, b: loss.evaluate(p, b))
    jit_eval = jax.jit(lambda l, p, b: l.evaluate(p, b))
    jit_vg = jax.jit(lambda l, p, b: jax.value_and_grad(lambda pp, bb: l(pp, bb), has_aux=True)(p, b)[0])
    jit_gb = {}
    answers = {}
    gb_answers = {}
    before = {k: describe(v) for k, v in objs.items()}
    ref_total = None
    # every run starts and ends with one eager and one jitted batch draw on the reached generator states
    calls = ["B", "K"] + list(program["calls"]) + ["K", "B"]
    for step, kind in enumerate(calls):
        ctx.sim_time += 1
        if kind in ("E", "J", "j", "C", "G", "H"):
            if kind == "E":
                tot, terms = loss.evaluate(params, batch)
            elif kind == "C":
                tot, terms = loss(params, batch)
            elif kind == "J":
                tot, terms = jit_eval(loss, params, batch)
            elif kind == "j":
                tot, terms = jit_eval_closure(params, batch)
            elif kind == "G":
                (tot, terms), _ = jax.value_and_grad(lambda pp, bb: loss(pp, bb), has_aux=True)(params, batch)
            else:
                tot, terms = jit_vg(loss, params, batch)
            ans = (np.asarray(tot), {k: np.asarray(v) for k, v in terms.items()})
            if kind in answers:
                prev = answers[kind]
                same = np.array_equal(prev[0], ans[0], equal_nan=True) and all(np.array_equal(prev[1][k], ans[1][k], equal_nan=True) for k in prev[1])
                if not same:
                    fail("not-repeatable", DESCR[kind], {"first": float(prev[0]), "again": float(ans[0])}, step)
                ctx.count("probe.repeat_same_kind")
            answers[kind] = ans
            for k2, other in answers.items():
                if k2 == kind:
                    continue
                if not ts.close(other[0], ans[0]) or set(other[1]) != set(ans[1]) or not all(ts.close(other[1][t], ans[1][t]) for t in ans[1]):
                    fail("mode-dependent-result", f"{DESCR[k2]} vs {DESCR[kind]}",
                         {"a": float(other[0]), "b": float(ans[0]), "terms_a": {t: float(v) for t, v in other[1].items()},
                          "terms_b": {t: float(v) for t, v in ans[1].items()}}, step)
        else:
            # get_batch on the SAME generator states must always give the same (state, batch)
            res = []
            for name, g in (("data", data), ("param_data", pdata), ("obs_data", odata)):
                if g is None:
                    continue
                if kind == "B":
                    g2, b = g.get_batch()
                else:
                    if name not in jit_gb:
                        jit_gb[name] = gensim.Exec()
                    g2, b = jit_gb[name].jit(g)
                res.append((name, [ts._arr(x) for x in jax.tree_util.tree_leaves(g2)], [np.asarray(x) for x in jax.tree_util.tree_leaves(b)]))
            for name, gl, bl in res:
                if name in gb_answers:
                    pg, pb, pk = gb_answers[name]
                    ok = len(pg) == len(gl) and all(x.shape == y.shape and np.array_equal(x, y, equal_nan=True) for x, y in zip(pg, gl)) \
                        and len(pb) == len(bl) and all(x.shape == y.shape and np.array_equal(x, y, equal_nan=True) for x, y in zip(pb, bl))
                    if not ok:
                        fail("get-batch-not-a-function-of-state", f"{name}/{DESCR[pk]} vs {DESCR[kind]}", {}, step)
                gb_answers[name] = (gl, bl, kind)
        after = {k: describe(v) for k, v in objs.items()}
        for k in objs:
            if after[k] != before[k]:
                d = first_difference(before[k], after[k], k)
                fail("argument-modified", f"{k}/{DESCR[kind]}", {"where": str(d[0]) if d else k, "before": str(d[1])[:200] if d else "", "after": str(d[2])[:200] if d else ""}, step)
        ctx.count("calls." + kind)
        ctx.state((eq, parts, kind, tuple(sorted(set(calls[:step])))[:4]))
    kinds = set(program["calls"])
    ctx.nontrivial = bool(kinds & {"J", "j", "H"}) and bool(kinds & {"E", "C", "G"}) and len(program["calls"]) >= 3
    if parts:
        ctx.count("probe.batch_with_" + parts)
    ctx.key = [eq, parts, program["calls"], program["data"], program["net"]["key"]]
    ctx.log.add("result", answers={k: v[0] for k, v in answers.items()})
