"""
Worker interpreter: executes run indices of one property in one float mode.

Started by main.py as `python worker.py <job.json>`; the environment (hash
seed, XLA threading, platform, JINNS_VERIF, PYTHONPATH=$VERIF_REPO) has been
pinned by the parent *before* this interpreter started.
"""

from __future__ import annotations

import faulthandler
import importlib
import json
import os
import sys
import time
import traceback
import warnings

HERE = os.path.dirname(os.path.abspath(__file__))
sys.path.insert(0, os.path.dirname(HERE))

from sim import core  # noqa: E402
from sim.core import Violation, HarnessError, Unsupported, EventLog  # noqa: E402


class Ctx:
    """Per-execution accumulator handed to the property's execute()."""

    def __init__(self):
        self.log = EventLog()
        self.stats = {}
        self.states = set()
        self.transitions = set()
        self.nontrivial = False
        self.key = None
        self.sim_time = 0  # generator calls + training iterations executed

    def count(self, name, k=1):
        self.stats[name] = self.stats.get(name, 0) + k

    def state(self, s):
        self.states.add(json.dumps(core._canon(s), sort_keys=True))

    def transition(self, a, op, b):
        self.transitions.add(json.dumps(core._canon([a, op, b]), sort_keys=True))


def _is_jinns_exception(exc) -> bool:
    """True when the innermost frame that is neither jax/equinox/optax nor ours
    lives under $VERIF_REPO/jinns: the library raised instead of returning."""
    repo = core.repo_dir()
    tb = traceback.extract_tb(exc.__traceback__)
    for fr in reversed(tb):
        fn = os.path.abspath(fr.filename)
        if fn.startswith(os.path.join(repo, "jinns")):
            return True
        if fn.startswith(core.VERIF_DIR):
            return False
    return False


def execute_guarded(mod, program):
    """Run one explicit program. Returns (ctx, violation|None)."""
    ctx = Ctx()
    try:
        mod.execute(program, ctx)
        return ctx, None
    except Violation as v:
        return ctx, v
    except (HarnessError, Unsupported):
        raise
    except Exception as e:  # noqa: BLE001
        if _is_jinns_exception(e):
            last = traceback.extract_tb(e.__traceback__)
            where = "?"
            for fr in reversed(last):
                if os.path.abspath(fr.filename).startswith(os.path.join(core.repo_dir(), "jinns")):
                    where = f"{os.path.basename(fr.filename)}:{fr.name}"
                    break
            return ctx, Violation(
                mod.ID,
                "raised-instead-of-returning",
                f"{mod.ID}.raised/{type(e).__name__}/{where}",
                {"exception": repr(e)[:400]},
            )
        raise HarnessError(
            f"{type(e).__name__}: {e}\n{traceback.format_exc()[-3000:]}"
        ) from e


def minimise(mod, program, violation, budget=60, wall_s=90):
    """Budgeted delta debugging: accept a candidate iff it fails the *same
    invariant id*. Candidates come from the property's own shrink()."""
    best, best_v = program, violation
    spent = 0
    progress = True
    t_end = time.time() + wall_s
    while progress and spent < budget and time.time() < t_end:
        progress = False
        for cand in mod.shrink(best):
            if spent >= budget or time.time() > t_end:
                break
            spent += 1
            try:
                _, v = execute_guarded(mod, cand)
            except (HarnessError, Unsupported):
                continue
            if v is not None and v.inv == violation.inv:
                best, best_v = cand, v
                progress = True
                break
    return best, best_v, spent


def main():
    job = json.load(open(sys.argv[1]))
    faulthandler.enable()
    if job.get("hang_s"):
        faulthandler.dump_traceback_later(job["hang_s"], exit=True)
    warnings.simplefilter("ignore")
    os.environ.setdefault("JAX_PLATFORMS", "cpu")

    import jax

    jax.config.update("jax_enable_x64", job["float"] == "x64")
    cache = os.environ.get("JAX_COMPILATION_CACHE_DIR")
    if cache:
        try:
            jax.config.update("jax_compilation_cache_dir", cache)
            jax.config.update("jax_persistent_cache_min_compile_time_secs", 0.0)
            jax.config.update("jax_persistent_cache_min_entry_size_bytes", 0)
        except Exception:  # noqa: BLE001
            pass

    import jinns

    repo = core.repo_dir()
    if not os.path.abspath(jinns.__file__).startswith(repo + os.sep):
        print(f"HARNESS-ERROR jinns imported from {jinns.__file__}, expected {repo}")
        sys.exit(2)

    mod = importlib.import_module(f"sim.props.{job['prop']}")
    out = open(job["out"], "w")
    seed = job["seed"]

    def emit(rec):
        out.write(json.dumps(rec, sort_keys=True) + "\n")
        out.flush()

    if job["mode"] == "replay":
        doc = json.load(open(job["replay"]))
        try:
            # a violation may depend on state left in the process by earlier runs of the same worker
            # (module-level caches): the replay file then names those runs and they are re-executed first
            h = doc.get("history")
            if h:
                for hr in h["runs"]:
                    try:
                        hp = mod.generate(core.run_rng(h["seed"], job["prop"], hr), h["tier"], hr)
                        execute_guarded(mod, hp)
                    except (HarnessError, Unsupported):
                        pass
            ctx, v = execute_guarded(mod, doc["program"])
            emit(
                {
                    "r": doc.get("run", -1),
                    "digest": ctx.log.digest(),
                    "violation": v.to_json() if v else None,
                    "expected": doc.get("violation"),
                }
            )
        except Unsupported as e:
            emit({"r": doc.get("run", -1), "digest": None, "violation": None, "expected": doc.get("violation"), "set_aside": str(e)[:300]})
        except HarnessError as e:
            emit({"r": -1, "harness_error": str(e)[-3000:]})
        return

    minimised = {}
    for r in job["runs"]:
        t0 = time.time()
        rng = core.run_rng(seed, job["prop"], r)
        try:
            program = mod.generate(rng, job["tier"], r)
            if program.get("float", "x64") != job["float"]:
                raise HarnessError("float mode mismatch between generate() and job")
            ctx, v = execute_guarded(mod, program)
            rec = {
                "r": r,
                "digest": ctx.log.digest(),
                "stats": ctx.stats,
                "states": sorted(ctx.states),
                "transitions": sorted(ctx.transitions),
                "nontrivial": bool(ctx.nontrivial),
                "key": ctx.key,
                "sim_time": ctx.sim_time,
                "violation": None,
                "wall": None,
            }
            if job.get("samples") and r in job["samples"]:
                rec["sample"] = program
            if v is not None:
                # minimise the first violations of each invariant only: a broken
                # tree fails many runs and one training program costs seconds
                n_min = minimised.get(v.inv, 0)
                if job.get("minimise", True) and n_min < 1 and sum(minimised.values()) < 3:
                    minimised[v.inv] = n_min + 1
                    small, v2, spent = minimise(mod, program, v, budget=job.get("shrink_budget", 40))
                else:
                    small, v2, spent = program, v, 0
                ctx2, v3 = execute_guarded(mod, small)
                if v3 is None or v3.inv != v2.inv:
                    raise HarnessError(
                        f"minimised program does not reproduce {v2.inv} (nondeterminism?)"
                    )
                path = core.write_replay(
                    job["prop"],
                    seed,
                    r,
                    small,
                    v3,
                    ctx2.log.digest(),
                    {"float": job["float"], "shrink_spent": spent, "original_ops": _size(program), "minimised_ops": _size(small)},
                )
                rec["violation"] = v3.to_json()
                rec["replay"] = path
                rec["history"] = {"seed": seed, "tier": job["tier"], "runs": job["runs"][: job["runs"].index(r)]}
            rec["wall"] = round(time.time() - t0, 3)
            emit(rec)
        except Unsupported as e:
            emit({"r": r, "unsupported": str(e)[:300]})
        except HarnessError as e:
            emit({"r": r, "harness_error": str(e)[-3000:]})
        except Exception as e:  # noqa: BLE001
            emit({"r": r, "harness_error": f"{type(e).__name__}: {e}\n{traceback.format_exc()[-3000:]}"})
    out.close()


def _size(program):
    try:
        return len(program.get("ops", []))
    except Exception:  # noqa: BLE001
        return None


if __name__ == "__main__":
    main()
