"""
Core of the deterministic simulator: seed derivation, event log + digest,
violations, known findings, replay files.

Nothing in this module imports jax: the parent process stays jax-free, the
workers import jax after the environment has been pinned (see worker.py).
"""

from __future__ import annotations

import hashlib
import json
import os
import random
import re

VERIF_DIR = os.path.dirname(os.path.dirname(os.path.abspath(__file__)))
OUT_DIR = os.environ.get("VERIF_OUT") or os.path.join(VERIF_DIR, "out")
DEFAULT_SEED = 20261003


def repo_dir() -> str:
    return os.path.abspath(os.environ.get("VERIF_REPO", "/repo"))


def verif_seed() -> int:
    try:
        return int(os.environ.get("VERIF_SEED", DEFAULT_SEED))
    except ValueError:
        return DEFAULT_SEED


def run_rng(seed: int, prop: str, r: int, stream: str = "") -> random.Random:
    """One PRNG per (seed, property, run index): every choice of the run (program,
    schedule, faults, jax keys) is drawn from it and from nothing else."""
    h = hashlib.sha256(f"{seed}/{prop}/{r}/{stream}".encode()).digest()
    return random.Random(int.from_bytes(h[:16], "big"))


# ---------------------------------------------------------------------------
# event log


def _canon(x):
    """Canonical JSON-able form (floats via repr so that the digest is exact)."""
    if isinstance(x, dict):
        return {str(k): _canon(v) for k, v in sorted(x.items(), key=lambda kv: str(kv[0]))}
    if isinstance(x, (list, tuple)):
        return [_canon(v) for v in x]
    if isinstance(x, bool) or x is None or isinstance(x, (int, str)):
        return x
    if isinstance(x, float):
        return repr(x)
    try:
        import numpy as np

        if isinstance(x, np.generic):
            return _canon(x.item())
        if isinstance(x, np.ndarray):
            return {
                "sha1": hashlib.sha1(np.ascontiguousarray(x).tobytes()).hexdigest(),
                "shape": list(x.shape),
                "dtype": str(x.dtype),
            }
    except ImportError:  # pragma: no cover
        pass
    return repr(x)


class EventLog:
    """Append-only canonical log; logging never draws from a PRNG or reads a clock."""

    def __init__(self):
        self.events = []

    def add(self, op, **kw):
        self.events.append(_canon({"op": op, **kw}))

    def digest(self) -> str:
        return hashlib.sha256(
            json.dumps(self.events, sort_keys=True, separators=(",", ":")).encode()
        ).hexdigest()


# ---------------------------------------------------------------------------
# violations


class Violation(Exception):
    """An oracle failure. `inv` is the invariant id (stable, used by the
    shrinker: a shrunk program must fail the same invariant), `sig` the narrow
    signature used for known-finding matching, `details` free JSON."""

    def __init__(self, prop, inv, sig, details=None, step=None):
        super().__init__(f"{prop}:{inv}:{sig}")
        self.prop = prop
        self.inv = inv
        self.sig = sig
        self.details = details or {}
        self.step = step

    def to_json(self):
        return {
            "property": self.prop,
            "invariant_id": self.inv,
            "signature": self.sig,
            "step": self.step,
            "details": _canon(self.details),
        }


class HarnessError(Exception):
    """Our fault, never a violation."""


class Unsupported(Exception):
    """The generated program is outside the supported space (the pinned tree
    rejects it by construction with a documented error). Not a violation."""


# ---------------------------------------------------------------------------
# known findings

_KF_RE = re.compile(r"^(known|fixed):\s+property=(\S+)\s+(.*)$")


def load_known_findings(path=None):
    path = path or os.path.join(VERIF_DIR, "KNOWN_FINDINGS.txt")
    known, fixed = [], []
    if not os.path.exists(path):
        return known, fixed
    for line in open(path):
        line = line.strip()
        if not line or line.startswith("#"):
            continue
        m = _KF_RE.match(line)
        if not m:
            continue
        kind, prop, rest = m.groups()
        if kind == "known":
            m2 = re.match(r"sig=(\S+)\s*(.*)$", rest)
            if m2:
                known.append({"property": prop, "sig": m2.group(1), "text": m2.group(2)})
        else:
            fixed.append({"property": prop, "text": rest})
    return known, fixed


def match_known(known, prop, sig):
    for k in known:
        if k["property"] == prop and k["sig"] == sig:
            return k
    return None


# ---------------------------------------------------------------------------
# replay files


def write_replay(prop, seed, run, program, violation: Violation, digest, extra=None):
    d = os.path.join(OUT_DIR, "replays", prop)
    os.makedirs(d, exist_ok=True)
    safe = re.sub(r"[^A-Za-z0-9_.-]", "_", violation.inv)
    path = os.path.join(d, f"{safe}-{seed}-{run}.json")
    doc = {
        "property": prop,
        "verif_seed": seed,
        "run": run,
        "repo": repo_dir(),
        "program": program,
        "violation": violation.to_json(),
        "digest": digest,
    }
    if extra:
        doc.update(extra)
    with open(path, "w") as f:
        json.dump(doc, f, indent=1, sort_keys=True)
    return path
