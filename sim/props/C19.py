"""C19 -- validation is called on schedule; early stopping and best parameters follow it."""

from __future__ import annotations

ID = "C19"
ENGINE = "trainsim"
LEVEL = "exploration"
EXPECTED_S_PER_RUN = 5.0

PERIODS = [1, 2, 3]
N_SCRIPTS = 4 ** 4  # all scripts of 4 calls over {improved?} x {stop?}
N_EXH = N_SCRIPTS * len(PERIODS)
N_EXH_QUICK = N_EXH  # the exhaustive part runs in both tiers
# thorough tier only: every script of 5 outcomes (1024) x the same periods, run indices N_EXH .. N_EXH + N_EXH5 - 1;
# the quick tier's run indices are unchanged by it
N_SCRIPTS5 = 4 ** 5
N_EXH5 = N_SCRIPTS5 * len(PERIODS)
TIERS = {"quick": N_EXH + 180, "thorough": N_EXH + N_EXH5 + 3000}

RULE = (
    "runs 0..%d enumerate exhaustively every script of 4 validation outcomes over {improved?} x {stop?} (256) for the periods "
    "1, 2, 3 with a scripted validation module whose criterion fingerprints the parameters it was given (thorough tier: a further "
    "block enumerates every script of 5 outcomes, 1024 x 3 periods); later runs alternate "
    "between (a) longer random scripts (up to 12 calls, periods 1-7, including periods larger than the horizon) and (b) the "
    "built-in ValidationLoss with its own data / parameter / observation generators, patience 0-3, early stopping on/off, "
    "periods 1, 2, 5, learning rate 0 (exact ties) in some runs and a NaN row in the validation table in others. "
    "Non-trivial: at least two invocations happened and the parameters moved between them; distinct = distinct "
    "(script or (patience, period, early_stopping, tie/NaN flags), training program, stop iteration)." % (N_EXH - 1)
)
STATE_MEASURE = "(module kind, period, #invocations, stop position in {none, first, interior, last}, last-improved position, patience, early_stopping, tie?, NaN criterion?)"
REAL = ["jinns.solve validation branch (lax.cond on i % call_every, criterion history, best params switch, early-stopping flag in break_fun)",
        "jinns.validation.ValidationLoss (counter / best_val_loss / patience)", "jinns losses, generators, optax"]
STUB = ["scripted AbstractValidationModule", "tiny MLP PINNs, analytic equations", "reference loop M3 + pure python model of the validation bookkeeping"]
ASSUMPTIONS = [
    "built-in ValidationLoss: criteria are first compared numerically with the reference; the discrete decisions (improvement, stop) "
    "are then checked on the very numbers the implementation recorded, so that near-ties cannot raise an alarm",
    "when no invocation flags an improvement the reported best parameters are unspecified and not checked",
]
TOLERANCES = {"x64": "rtol 1e-8 atol 1e-10"}


def float_mode(r):
    return "x64"


def _base_program(rng, r, tier, n_total):
    from sim.props import C07

    prog = C07.gen_training_program(rng, 0, tier, max_total=n_total, allow_segments=False,
                                    eqs=["ode", "statio1", "nonstatio1", "sysode", "statio2"])
    prog["float"] = "x64"
    prog["segments"] = [{"n": n_total}]
    prog["verbose"] = False
    return prog


def generate(rng, tier, r):
    ncalls, nscripts = 4, N_SCRIPTS
    if tier == "thorough" and r >= N_EXH:
        if r < N_EXH + N_EXH5:
            ncalls, nscripts, r = 5, N_SCRIPTS5, r - N_EXH
        else:
            r = r - N_EXH5  # sampled part: same index arithmetic as without the extra block
    if ncalls == 5 or r < N_EXH:
        period = PERIODS[r // nscripts]
        code = r % nscripts
        script = []
        for _ in range(ncalls):
            code, d = divmod(code, 4)
            script.append({"improved": bool(d & 1), "stop": bool(d & 2)})
        n = (ncalls - 1) * period + (1 if period == 1 else 2)
        # a pool of 4 base programs shared by all scripts (one compiled loop per (program, period))
        from sim import core

        prng = core.run_rng(core.verif_seed(), ID, (r % nscripts) % 4, stream="pool")
        prog = _base_program(prng, r, tier, n)
        # cheap family for the exhaustive part
        prog["param_data"] = None
        prog["obs_data"] = None
        prog["driver"] = "M2" if r % 16 == 5 else "M1"
        prog["validation"] = {"kind": "scripted", "period": period, "script": script}
        prog["exhaustive"] = True
        return prog
    if (r - N_EXH) % 3 == 0:
        period = rng.choice([1, 1, 2, 3, 4, 5, 7, 50])
        n = rng.randint(3, 20)
        L = rng.randint(1, 12)
        pstop = rng.choice([0.0, 0.1, 0.3])
        script = [{"improved": rng.random() < 0.5, "stop": rng.random() < pstop} for _ in range(L)]
        prog = _base_program(rng, r, tier, n)
        prog["validation"] = {"kind": "scripted", "period": period, "script": script}
        return prog
    n = rng.randint(4, 18)
    prog = _base_program(rng, r, tier, n)
    from sim import trainsim as ts

    for _ in range(50):
        vspec = ts.data_spec_for(prog["eq"], rng)
        # a boundary term needs a border batch in the validation batches too
        if not prog["terms"].get("bc") or vspec.get("bb") is not None:
            break
    else:
        prog["terms"]["bc"] = None
    val = {"kind": "builtin", "period": rng.choice([1, 1, 2, 2, 5, 40]), "patience": rng.randint(0, 3),
           "early_stopping": rng.random() < 0.75, "data": vspec, "param_data": None, "obs_data": None}
    mb = ts.main_batch_size(vspec)
    aux_ok = not (vspec["kind"] == "nonstatio" and not vspec["cartesian"] and vspec["bt"] != 1)
    if aux_ok and prog["eq"] != "sysode" and not prog["terms"].get("bc") and not prog["terms"].get("norm") and rng.random() < 0.3:
        val["param_data"] = {"kind": "param", "key": rng.randrange(2**31), "n": mb * rng.randint(1, 2) + rng.choice([0, 1]), "b": mb,
                             "ranges": {"b": [0.5, 1.5]}, "user": {}, "method": "uniform", "keys_as_dict": True}
    if aux_ok and rng.random() < 0.35:
        val["obs_data"] = {"key": rng.randrange(2**31), "n": mb * rng.randint(1, 2) + rng.choice([0, 1]), "b": mb, "params": []}
        if rng.random() < 0.3:
            val["obs_data"]["nan_row"] = rng.randrange(8)
    if rng.random() < 0.25:
        # exact ties: the parameters never move and the validation set has one batch
        prog["opt"] = {"kind": "sgd", "lr": 0.0}
        val["tie"] = True
    prog["validation"] = val
    return prog


def _scripted_module(ts, period, script):
    return ts.scripted_validation(period, script)


def execute(program, ctx):
    import numpy as np
    import jax
    import jax.numpy as jnp
    import jinns
    from sim import trainsim as ts, gensim
    from sim.core import Violation

    if program.get("obs_data") and program["obs_data"].get("params"):
        ts._fresh_code_solve()
    P = ts.build(program)
    n = program["segments"][0]["n"]
    V = program["validation"]
    period = V["period"]
    kind = V["kind"]

    cond = {}

    def fail(inv, what, details):
        numeric = inv in ("final-params", "criterion-history", "best-params") or (inv == "stop-iteration" and what == "loss-history")
        if numeric and cond.get("args") is not None and ts.ill_conditioned(*cond["args"], observed=cond.get("observed")):
            raise ts.Unsupported(f"ill-conditioned training (reference not determined to within the tolerance): {inv}")
        raise Violation(ID, inv, f"{ID}.{inv}/{kind}/{program['driver']}/{what}", details, None)

    if kind == "scripted":
        vmod = _scripted_module(ts, period, V["script"])
    else:
        vprog = dict(program, data=V["data"], rar=None)
        vdata = ts.build_main_data(vprog)
        vp = gensim.build_task(V["param_data"]) if V.get("param_data") else None
        vo = ts.build_obs(dict(program, data=V["data"], obs_data=V["obs_data"])) if V.get("obs_data") else None
        from jinns.validation._validation import ValidationLoss
        vmod = ValidationLoss(
            loss=P.loss, validation_data=vdata, validation_param_data=vp, validation_obs_data=vo,
            call_every=period, early_stopping=V["early_stopping"], patience=V["patience"])

    carries = []
    out, stdout = ts.call_solve(P, n, P.params, P.data, P.param_data, P.obs_data, None, validation=vmod,
                                driver=program["driver"], verbose=False,
                                observer=(lambda c: carries.append(c)) if program["driver"] == "M2" else None)
    o_params, o_loss, o_terms, o_data, _, o_opt, o_stored, o_val, o_best = out
    ctx.sim_time += n
    if o_val is None or o_best is None:
        fail("validation-outputs", "none", {})
    crit = np.asarray(o_val, dtype=np.float64)
    if crit.shape != (n,):
        fail("criterion-history", "shape", {"got": list(crit.shape)})
    call_its = [i for i in range(n) if i % period == 0]

    # ---- discrete model: which invocation stops, which one improved last
    if kind == "scripted":
        L = len(V["script"])
        outcome = lambda c: V["script"][min(c, L - 1)]
        stop_it, last_imp = None, None
        for c, i in enumerate(call_its):
            o = outcome(c)
            if o["improved"]:
                last_imp = i
            if o["stop"]:
                stop_it = i
                break
    else:
        # fed with the RECORDED criteria (strict '<' on the very numbers that were compared)
        best, counter = np.inf, 0
        stop_it, last_imp = None, None
        for c, i in enumerate(call_its):
            stop_here = V["early_stopping"] and counter == V["patience"]
            v = crit[i]
            if v < best:
                best, counter, last_imp = v, 0, i
            else:
                counter += 1
            if stop_here:
                stop_it = i
                break
    n_run = n if stop_it is None else stop_it + 1

    # ---- reference loop for exactly n_run iterations
    chosen = None
    for w in (1, 0):
        R = ts.reference(P, n_run, P.params, P.data, P.param_data, P.obs_data, None, warmup=w)
        if ts.gen_equal(o_data, R.data):
            chosen = R
            break
    if chosen is None:
        fail("stop-iteration", "generator-advance",
             {"expected_iterations": n_run, "stop_it": stop_it, "note": "training did not stop right after the invocation that requested it (or ran a different number of iterations)"})
    R = chosen
    cond["args"] = (P, n_run, P.params, P.data, P.param_data, P.obs_data, None, w, R)
    cond["observed"] = (ts.maxdiff(o_params, R.params), None)
    if R.stop_reason == "nan":
        raise ts.Unsupported("NaN parameters in a validation program")
    exp_loss = np.zeros(n)
    exp_loss[:n_run] = [float(x) for x in R.loss]
    if not ts.close(np.asarray(o_loss), exp_loss):
        fail("stop-iteration", "loss-history", {"expected_iterations": n_run, "got": np.asarray(o_loss).tolist(), "expected": exp_loss.tolist()})
    if not ts.tree_close(o_params, R.params):
        fail("final-params", "params", {"maxdiff": ts.maxdiff(o_params, R.params)})
    if program["driver"] == "M2" and len(carries) != n_run + 1:
        fail("stop-iteration", "carries", {"iterations_run": len(carries) - 1, "expected": n_run})

    # ---- criterion history: written at invocations with the post-update parameters, carried forward, zero after the stop
    exp_crit = np.zeros(n)
    if kind == "scripted":
        cur = 0.0
        c = 0
        for i in range(n_run):
            if i % period == 0:
                cur = ts.fingerprint(R.params_after[i]) + c
                c += 1
            exp_crit[i] = cur
        if not ts.close(crit, exp_crit, scale=10.0):
            pre = np.zeros(n)
            cur, c = 0.0, 0
            for i in range(n_run):
                if i % period == 0:
                    cur = ts.fingerprint(R.params_before[i]) + c
                    c += 1
                pre[i] = cur
            fail("criterion-history", "values", {"period": period, "got": crit.tolist(), "expected": exp_crit.tolist(),
                                                 "matches_pre_update_params": bool(ts.close(crit, pre, scale=10.0))})
    else:
        vd, vpd, vod = vdata, vp, vo
        cur = 0.0
        nan_seen = False
        for i in range(n_run):
            if i % period == 0:
                vb, vd, vpd, vod = ts.draw(vd, vpd, vod)
                cur = float(np.asarray(P.loss(R.params_after[i], vb)[0]))
                nan_seen = nan_seen or np.isnan(cur)
            exp_crit[i] = cur
        if not ts.close(crit, exp_crit, scale=10.0):
            fail("criterion-history", "values", {"period": period, "got": crit.tolist(), "expected": exp_crit.tolist()})
        if nan_seen:
            ctx.count("fault.val_nan_criterion")
    # ---- best parameters
    if last_imp is not None:
        if not ts.tree_close(o_best, R.params_after[last_imp]):
            others = [i for i in call_its if i < n_run and ts.tree_close(o_best, R.params_after[i])]
            fail("best-params", "last-improved", {"expected_from_iteration": last_imp, "matches_invocations_at": others,
                                                  "equals_initial": bool(ts.tree_close(o_best, P.params)),
                                                  "equals_final": bool(ts.tree_close(o_best, R.params))})
    ncalls = len([i for i in call_its if i < n_run])
    pos = "none" if stop_it is None else ("first" if stop_it == 0 else ("last" if stop_it == call_its[-1] else "interior"))
    ctx.count("probe.stop_" + pos)
    if period > n:
        ctx.count("probe.period_beyond_horizon")
    if kind == "builtin":
        ctx.count("probe.patience_%d" % V["patience"])
        if V.get("tie"):
            ctx.count("probe.exact_tie")
        if not V["early_stopping"]:
            ctx.count("probe.early_stopping_disabled")
        mbv = ts.main_batch_size(V["data"])
        dv = V["data"]
        for nn, bb in ((dv.get("nt"), dv.get("bt")), (dv.get("n"), dv.get("bo"))):
            if nn and bb and ncalls * bb > nn:
                ctx.count("probe.validation_generator_crossed_epoch")
                break
    ctx.count("fault.val_script" if kind == "scripted" else "fault.val_builtin")
    ctx.count("fault.driver_" + program["driver"])
    moved = n_run >= 2 and ts.maxdiff(R.params_after[0], R.params_after[n_run - 1]) > 1e4 * ts.tol()[1]
    ctx.nontrivial = bool(ncalls >= 2 and (moved or V.get("tie")))
    sk = [V.get("script"), V.get("patience"), V.get("early_stopping"), V.get("tie"), period]
    ctx.key = [kind, sk, program["eq"], program["opt"]["kind"], program["driver"], stop_it, n, program["net"]["key"]]
    ctx.state((kind, period, min(ncalls, 5), pos, None if last_imp is None else min(last_imp // max(period, 1), 4),
               V.get("patience"), V.get("early_stopping"), bool(V.get("tie"))))
    ctx.log.add("result", crit=crit, losses=np.asarray(o_loss), stop=stop_it)


def shrink(program):
    from sim.props import C07

    V = program["validation"]
    if V["kind"] == "scripted" and len(V["script"]) > 1:
        yield dict(program, validation=dict(V, script=V["script"][:-1]))
    if V["kind"] == "builtin":
        for k in ("param_data", "obs_data"):
            if V.get(k):
                yield dict(program, validation=dict(V, **{k: None}))
    for c in C07.shrink(program):
        if len(c.get("segments", [])) == 1:
            yield c


def evidence_extra(ok, tier):
    expected = N_EXH + (N_EXH5 if tier == "thorough" else 0)
    exh = [r for r in ok if r["r"] < expected]
    what = "4 validation outcomes over {improved?} x {stop?} (256)" + (" and of 5 outcomes (1024)" if tier == "thorough" else "")
    return {
        "exhaustive_subspace": {
            "description": "every script of %s x periods 1, 2, 3, scripted module" % what,
            "programs": len(exh),
            "expected": expected,
            "exhaustive": len(exh) == expected,
        }
    }
