"""C17 -- refinement adds the highest-residual candidates and keeps active points."""

from __future__ import annotations

ID = "C17"
ENGINE = "trainsim"
LEVEL = "exploration"
EXPECTED_S_PER_RUN = 6.0
TIERS = {"quick": 200, "thorough": 2500}

RULE = (
    "same program space as C16 (ODE, system of ODEs, stationary 2-D, space-time 2-D cartesian; schedules, sizes with time and "
    "space initial counts equal or not, capacity exhaustion in ~40% of the runs). The real solve() is stepped by its "
    "python-loop driver; the guarded hook (JINNS_VERIF=1) reports, for every refinement step, the candidates, their squared "
    "residuals and the selection. Oracle per step: candidates in the closed domain; reported residuals equal residuals "
    "recomputed from the user equation with the parameters of that iteration; the selection is a top-k set of the reported "
    "residuals (ties accepted as value multisets; for product domains the top space-time pairs); the multiset of active "
    "points after the step is exactly (active before) + (selected points); between steps the active multiset never changes "
    "(batch draws, reshuffles). Non-trivial: >= 1 step with candidate residuals that are not all equal; distinct = distinct "
    "(kind, schedule, sizes, horizon, network key)."
)
STATE_MEASURE = "(generator kind, #steps capped at 4, capacity exhausted?, time/space initial counts equal?, candidates > selected?, reshuffle between steps?)"
REAL = ["jinns.solve + trigger_rar / rar_step_true (sampling of candidates, residual evaluation, argsort / top_k, dynamic_update_slice, mask rebuild)",
        "RAR-enabled generators incl. reshuffles with probabilities", "losses, optax"]
STUB = ["tiny MLP PINNs, analytic equations", "independent residual recomputation (user equation called directly, vmapped by the harness)"]
ASSUMPTIONS = [
    "'current network' = the parameters of the iteration in which the step happens (pre- or post-update of that iteration are both accepted)",
    "the hook only reports; without it the check stops with HARNESS-ERROR rather than guessing the candidates from the key-splitting order",
]
TOLERANCES = {"residuals x64": "rtol 1e-8 atol 1e-10", "selection": "exact on the reported numbers", "stores": "exact (bytes)"}


def float_mode(r):
    return "x32" if r % 4 == 3 else "x64"


def generate(rng, tier, r):
    from sim import trainsim as ts

    return ts.gen_rar_program(rng, r, tier, float_mode(r))


def execute(program, ctx):
    import collections
    import numpy as np
    import jax
    import jax.numpy as jnp
    from sim import trainsim as ts
    from sim.core import Violation, HarnessError
    from sim.props.C16 import model_steps

    T = ts.run_rar(dict(program, prop=ID))
    if not T.hook:
        raise HarnessError("hook missing: jinns.solver._rar._VERIF is off (JINNS_VERIF=1 not honoured)")
    P = T.P
    n = sum(sg["n"] for sg in program["segments"])
    rar = program["rar"]
    rp = rar["params"]
    d = program["data"]
    eq = program["eq"]
    ctx.sim_time += n

    def fail(inv, what, details, step=None):
        eqs = "equal-starts" if rar.get("n_start") == rar.get("nt_start") or len([k for k in ("n_start", "nt_start") if k in rar]) < 2 else "different-starts"
        raise Violation(ID, inv, f"{ID}.{inv}/{eq}/{eqs}/{what}", dict(details, rar=rar, segments=program["segments"]), step)

    def ms(rows):
        rows = np.asarray(rows)
        rows = rows.reshape(rows.shape[0], -1)
        return collections.Counter(r.tobytes() for r in np.ascontiguousarray(rows))

    def active(snap, store, pf):
        return ms(snap[store][snap[pf] > 0])

    dims = []
    if "nt_start" in rar:
        dims.append(("times", "p_times", rp["selected_sample_size_times"], rp["sample_size_times"]))
    if "n_start" in rar:
        dims.append(("omega", "p_omega", rp["selected_sample_size_omega"], rp["sample_size_omega"]))

    # independent residuals -------------------------------------------------
    import equinox as eqx
    het = bool(program.get("hetero"))

    def with_het(params, fn, *point):
        """the user's heterogeneity applied by hand (not through DynamicLoss.evaluate)"""
        if not het:
            return params
        return eqx.tree_at(lambda p: p.eq_params, params, dict(params.eq_params, a=fn(*point, P.u, params)))

    def residuals(params, ev):
        if eq in ("ode", "odevec", "sysode"):
            ts_ = jnp.asarray(ev["candidates"])
            if eq in ("ode", "odevec"):
                f = jax.vmap(lambda t: P.loss.dynamic_loss.equation(t, P.u, with_het(params, ts._het_ode, t)))
                r = np.asarray(f(ts_))
                return (r.reshape(r.shape[0], -1) ** 2).sum(axis=1)
            tot = 0.0
            for k, dl in P.loss.dynamic_loss_dict.items():
                f = jax.vmap(lambda t, dl=dl: dl.equation(t, P.u, params))
                r = np.asarray(f(ts_))
                tot = tot + (r.reshape(r.shape[0], -1) ** 2).sum(axis=1)
            return tot
        if eq == "statio2":
            xs = jnp.asarray(ev["candidates"])
            f = jax.vmap(lambda x: P.loss.dynamic_loss.equation(x, P.u, with_het(params, ts._het_statio, x)))
            r = np.asarray(f(xs))
            return (r.reshape(r.shape[0], -1) ** 2).sum(axis=1)
        tt = jnp.asarray(ev["candidates_times"])
        xx = jnp.asarray(ev["candidates_omega"])
        f = jax.vmap(jax.vmap(lambda t, x: P.loss.dynamic_loss.equation(t[None], x, P.u, with_het(params, ts._het_nonstatio, t[None], x)), (None, 0)), (0, None))
        r = np.asarray(f(tt, xx))
        return (r.reshape(tt.shape[0], xx.shape[0]) ** 2)

    events = sorted(T.events, key=lambda e: (int(e["iteration"]), int(e["step"])))
    by_it = {}
    for e in events:
        by_it.setdefault(int(e["iteration"]), []).append(e)
    nontriv = False
    steps_done = 0
    resh_between = False
    # a resumed call takes the generator over: same active points
    for (g_it, returned, taken) in T.bounds:
        for store, pf, sel, samp in dims:
            if active(returned, store, pf) != active(taken, store, pf):
                fail("active-points-lost", f"on-resume/{store}", {"iteration": g_it}, g_it)
        ctx.count("fault.stop_resume")
    for i in range(n):
        before, after = T.snaps[i]
        stepped = after["rar_iter_nb"] > before["rar_iter_nb"]
        evs = by_it.get(i, [])
        if stepped and len(evs) != 1:
            fail("hook-events", "missing", {"iteration": i, "events": len(evs)}, i)
        if not stepped:
            if evs:
                fail("hook-events", "step-without-count", {"iteration": i}, i)
            # (e) draws and reshuffles never change the active multiset
            for store, pf, sel, samp in dims:
                if active(before, store, pf) != active(after, store, pf):
                    fail("active-points-lost", f"between-steps/{store}", {"iteration": i}, i)
                if steps_done and not np.array_equal(before[store], after[store]):
                    resh_between = True
            continue
        ev = evs[0]
        steps_done += 1
        # (a) candidates in the closed domain
        if eq in ("ode", "odevec", "sysode"):
            c = np.asarray(ev["candidates"])
            if c.shape[0] != rp["sample_size_times"] or np.any(c < np.asarray(d["tmin"], c.dtype)) or np.any(c > np.asarray(d["tmax"], c.dtype)):
                fail("candidates-out-of-domain", "times", {"iteration": i, "min": float(c.min()), "max": float(c.max())}, i)
        if eq in ("statio2", "nonstatio2"):
            c = np.asarray(ev["candidates"] if eq == "statio2" else ev["candidates_omega"])
            for ax in range(2):
                if np.any(c[:, ax] < np.asarray(d["min_pts"][ax], c.dtype)) or np.any(c[:, ax] > np.asarray(d["max_pts"][ax], c.dtype)):
                    fail("candidates-out-of-domain", "omega", {"iteration": i, "axis": ax}, i)
            if c.shape[0] != rp["sample_size_omega"]:
                fail("candidates-count", "omega", {"got": int(c.shape[0])}, i)
        if eq == "nonstatio2":
            c = np.asarray(ev["candidates_times"])
            if c.shape[0] != rp["sample_size_times"] or np.any(c < np.asarray(d["tmin"], c.dtype)) or np.any(c > np.asarray(d["tmax"], c.dtype)):
                fail("candidates-out-of-domain", "times", {"iteration": i}, i)
        # (b) reported residuals == residuals of the current network
        rep = np.asarray(ev["sq_residuals"], dtype=np.float64)
        ok = False
        diffs = []
        for pp in (T.params[i][1], T.params[i][0]):
            mine = np.asarray(residuals(pp, ev), dtype=np.float64)
            if mine.shape == rep.shape and ts.close(rep, mine, scale=100.0):
                ok = True
                break
            diffs.append(float(np.max(np.abs(mine - rep))) if mine.shape == rep.shape else "shape")
        if not ok:
            stale = any(ts.close(rep, np.asarray(residuals(T.params[j][0], ev), dtype=np.float64), scale=100.0) for j in range(0, max(i, 0)))
            fail("residuals-not-of-current-network", "values", {"iteration": i, "maxdiffs": diffs, "matches_older_params": bool(stale)}, i)
        # (c) the selection is a top-k set of the reported residuals
        if eq != "nonstatio2":
            sel = rp["selected_sample_size_times"] if eq in ("ode", "odevec", "sysode") else rp["selected_sample_size_omega"]
            idx = np.asarray(ev["selected_idx"]).reshape(-1)
            cand = np.asarray(ev["candidates"])
            pts = np.asarray(ev["selected_points"])
            if idx.shape[0] != sel or len(set(idx.tolist())) != sel:
                fail("selection", "count-or-duplicates", {"iteration": i, "idx": idx.tolist()}, i)
            if not np.array_equal(pts.reshape(sel, -1), cand[idx].reshape(sel, -1)):
                fail("selection", "points-are-not-the-indexed-candidates", {"iteration": i}, i)
            top = np.sort(rep)[::-1][:sel]
            if not np.array_equal(np.sort(rep[idx])[::-1], top):
                fail("not-highest-residuals", "values", {"iteration": i, "selected": np.sort(rep[idx])[::-1].tolist(), "top": top.tolist()}, i)
            selected = {"times" if eq in ("ode", "odevec", "sysode") else "omega": pts}
            if np.ptp(rep) > 0 and rep.shape[0] > sel:
                nontriv = True
        else:
            st, so = rp["selected_sample_size_times"], rp["selected_sample_size_omega"]
            ti = np.asarray(ev["selected_idx_times"]).reshape(-1)
            oi = np.asarray(ev["selected_idx_omega"]).reshape(-1)
            if ti.shape[0] != st or oi.shape[0] != so:
                fail("selection", "count", {"iteration": i}, i)
            flat = np.sort(rep.reshape(-1))[::-1]
            m = min(st, so)
            for j in range(max(st, so)):
                vj = flat[j]
                if j < m:
                    if rep[ti[j], oi[j]] != vj:
                        fail("not-highest-residuals", "pairs", {"iteration": i, "rank": j, "got": float(rep[ti[j], oi[j]]), "expected": float(vj)}, i)
                elif j < st:
                    if vj not in rep[ti[j], :]:
                        fail("not-highest-residuals", "pairs-times", {"iteration": i, "rank": j}, i)
                elif j < so:
                    if vj not in rep[:, oi[j]]:
                        fail("not-highest-residuals", "pairs-omega", {"iteration": i, "rank": j}, i)
            pt, po = np.asarray(ev["selected_points_times"]), np.asarray(ev["selected_points_omega"])
            if not np.array_equal(pt.reshape(-1), np.asarray(ev["candidates_times"])[ti].reshape(-1)) or not np.array_equal(po, np.asarray(ev["candidates_omega"])[oi]):
                fail("selection", "points-are-not-the-indexed-candidates", {"iteration": i}, i)
            selected = {"times": pt, "omega": po}
            if np.ptp(rep) > 0 and rep.size > max(st, so):
                nontriv = True
        # (d) active after == active before + selected ; nothing else overwritten
        for store, pf, sel, samp in dims:
            a0, a1 = active(before, store, pf), active(after, store, pf)
            exp = a0 + ms(selected[store])
            if a1 != exp:
                lost = sum((a0 - a1).values())
                missing_new = sum((ms(selected[store]) - a1).values())
                inv = "active-points-lost" if lost else ("selected-points-not-active" if missing_new else "active-set")
                fail(inv, f"at-step/{store}", {"iteration": i, "lost_active_rows": int(lost), "selected_rows_not_active": int(missing_new),
                                               "active_before": sum(a0.values()), "active_after": sum(a1.values())}, i)
    Js, _, _ = model_steps(program)
    if T.m1 is not None:
        e1 = sorted(T.events_m1, key=lambda e: (int(e["iteration"]), int(e["step"])))
        if len(e1) != len(events) or any(int(a["iteration"]) != int(b["iteration"]) for a, b in zip(e1, events)):
            fail("drivers-disagree", "events", {"m1": [int(e["iteration"]) for e in e1], "m2": [int(e["iteration"]) for e in events]})
        for a, b in zip(e1, events):
            for k in a:
                if k != "kind" and not ts.close(np.asarray(a[k], dtype=np.float64), np.asarray(b[k], dtype=np.float64), scale=100.0):
                    fail("drivers-disagree", f"event-{k}", {"iteration": int(a["iteration"])})
        if not ts.gen_equal(T.m1[3], T.out[3]):
            fail("drivers-disagree", "final-generator", {})
        ctx.count("probe.M1_equals_M2")
    ctx.count("probe.steps", steps_done)
    if het and steps_done:
        ctx.count("probe.steps_with_heterogeneous_parameter")
    if resh_between:
        ctx.count("probe.reshuffle_between_steps")
    two = "n_start" in rar and "nt_start" in rar
    if two and rar["n_start"] != rar["nt_start"]:
        ctx.count("probe.nt_start_differs_from_n_start")
    exhausted = False
    if Js:
        Jf = Js[-1]
        for name, n_tot, s0, sel in (("t", d.get("nt"), rar.get("nt_start"), rp.get("selected_sample_size_times")), ("x", d.get("n"), rar.get("n_start"), rp.get("selected_sample_size_omega"))):
            if s0 is not None and s0 + (Jf + 1) * sel > n_tot:
                exhausted = True
    if exhausted:
        ctx.count("fault.capacity_exhausted")
    ctx.nontrivial = nontriv
    ctx.key = [eq, rar, d, [sg["n"] for sg in program["segments"]], program["net"]["key"]]
    ctx.state((eq, min(steps_done, 4), exhausted, (not two) or rar["n_start"] == rar["nt_start"], nontriv, resh_between))
    ctx.log.add("result", events=[[int(e["iteration"]), int(e["step"])] for e in events],
                final=[T.snaps[-1][1].get("times"), T.snaps[-1][1].get("omega")])


def shrink(program):
    from sim.props import C16

    yield from C16.shrink(program)
