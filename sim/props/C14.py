"""C14 -- space-time batches are exact cartesian products (or exact pairings)."""

from __future__ import annotations

ID = "C14"
ENGINE = "gensim"
LEVEL = "exploration"
EXPECTED_S_PER_RUN = 2.5
KINDS = ["nonstatio"]
TIERS = {"quick": 300, "thorough": 6000}

RULE = (
    "each run draws 1-2 CubicMeshPDENonStatio generators (dim 1 or 2, cartesian or paired, with or without border, "
    "uniform or grid, temporal/spatial/border batch sizes that do and do not divide) and a seeded schedule of get_batch "
    "ops (eager / jit / lax.scan(k) / pytree round trip). After every call the interior batch and every facet of the "
    "border batch must factor exactly, time-major, into one temporal batch T and one spatial batch X (resp. border batch) "
    "or pair row-wise; T, X and the border rows must be sub-multisets of their stores and each obey the epoch model of "
    "its own sub-stream. Non-trivial: bt >= 2, bx >= 2, T and X each have distinct entries (so swapped or misaligned "
    "factors are distinguishable) and at least 2 calls; distinct = distinct (dim, mode, sizes, schedule modes) tuples."
)
STATE_MEASURE = "(dim, cartesian?, border?, phase of times / omega / border sub-stream, execution mode)"
REAL = ["jinns.data.CubicMeshPDENonStatio (constructor, get_batch, make_cartesian_product)"]
STUB = ["reference ProductModel (explicit double loop) + EpochModel per sub-stream"]
ASSUMPTIONS = ["the factors are read off the batch itself (T = column 0 every bx rows, X = first bx rows) and then checked against the stores: no cursor arithmetic is assumed"]
TOLERANCES = {"equality": "exact (bit-for-bit)"}


def float_mode(r):
    return "x32" if r % 4 == 3 else "x64"


def generate(rng, tier, r):
    from sim import gensim as gg

    thorough = tier == "thorough"
    if r % 50 == 7:
        # size knob at the other end: a product with >= 2**16 rows (implementations switch code paths on size)
        bt = rng.choice([128, 192, 256])
        bo = rng.choice([b for b in (256, 384, 512) if b != bt])
        dim = rng.choice([1, 2])
        spec = {"kind": "nonstatio", "key": rng.randrange(2**31), "n": bo + rng.randint(0, 3), "bo": bo, "dim": dim,
                "method": "uniform", "min_pts": [-1.0, 0.0][:dim], "max_pts": [1.0, 2.0][:dim],
                "nb": (2 if dim == 1 else 4 * 3) if rng.random() < 0.5 else None, "bb": None,
                "nt": bt + rng.randint(0, 2), "bt": bt, "tmin": 0.0, "tmax": 1.0, "cartesian": True}
        spec["bb"] = (1 if dim == 1 else 3) if spec["nb"] else None
        return {"float": float_mode(r), "tasks": [spec], "ops": [{"t": 0, "mode": rng.choice(["eager", "jit"])} for _ in range(2)], "large": True}
    return gg.gen_program(rng, KINDS, max_tasks=2, max_ops=100 if thorough else 24,
                          nmax=40 if thorough else 16, float_mode=float_mode(r))


def execute(program, ctx):
    import numpy as np
    import jax
    import jax.numpy as jnp
    from sim import gensim
    from sim.core import Violation

    modes = set()
    nontriv = [False]

    def ts_arr(x):
        return np.asarray(jnp.asarray(x))

    def fail(inv, t, what, details, step):
        s = t.spec
        mode = "cartesian" if s["cartesian"] else "paired"
        raise Violation(ID, inv, f"{ID}.{inv}/dim{s['dim']}/{mode}/{what}", dict(details, spec=s), step)

    def on_construct(t):
        for v in gensim.substreams(t.spec, t.g, None):
            t.models[v["name"]] = gensim.EpochModel(ID, "nonstatio", v)

    def on_call(t, g, b, op, step):
        s = t.spec
        modes.add(op["mode"])
        bt, bx, dim = s["bt"], s["bo"], s["dim"]
        tx = np.asarray(b.times_x_inside_batch)
        rows = bt * bx if s["cartesian"] else bx
        if tx.shape != (rows, 1 + dim):
            fail("shape", t, "inside", {"got": list(tx.shape), "expected": [rows, 1 + dim]}, step)
        T, X, DX = gensim.nonstatio_factors(s, b)
        T = np.asarray(T).reshape(-1)
        if T.shape[0] != bt or X.shape != (bx, dim):
            fail("shape", t, "factors", {"T": list(T.shape), "X": list(X.shape)}, step)
        # reference product, explicit loops
        if s["cartesian"]:
            if bt * bx >= 2**14:
                ctx.count("probe.large_product")
            exp = np.array([[T[i]] + list(X[j]) for i in range(bt) for j in range(bx)], dtype=tx.dtype).reshape(rows, 1 + dim)
        else:
            exp = np.array([[T[i]] + list(X[i]) for i in range(bx)], dtype=tx.dtype).reshape(rows, 1 + dim)
        if not np.array_equal(tx, exp):
            fail("not-a-product" if s["cartesian"] else "not-a-pairing", t, "inside",
                 {"bt": bt, "bx": bx, "first_rows": tx[:4].tolist(), "expected_first_rows": exp[:4].tolist()}, step)
        tdx = b.times_x_border_batch
        if s["bb"] is None:
            if tdx is not None:
                fail("shape", t, "border-not-none", {}, step)
        else:
            tdx = np.asarray(tdx)
            nf = 2 * dim
            if dim == 1:
                lo = np.asarray(s["min_pts"][0], tdx.dtype)
                hi = np.asarray(s["max_pts"][0], tdx.dtype)
                exp = np.array([[[T[i], T[i]], [lo, hi]] for i in range(bt)], dtype=tdx.dtype)
                what = "border-1d"
            elif s["cartesian"]:
                bb = s["bb"]
                exp = np.array([[[T[i]] * nf] + [list(DX[j, d, :]) for d in range(dim)]
                                for i in range(bt) for j in range(bb)], dtype=tdx.dtype)
                what = "border"
            else:
                bb = s["bb"]
                exp = np.array([[[T[i]] * nf] + [list(DX[i, d, :]) for d in range(dim)]
                                for i in range(bb)], dtype=tdx.dtype)
                what = "border"
            if tdx.shape != exp.shape:
                fail("shape", t, what, {"got": list(tdx.shape), "expected": list(exp.shape)}, step)
            if not np.array_equal(tdx, exp):
                fail("not-a-product" if (s["cartesian"] or dim == 1) else "not-a-pairing", t, what,
                     {"bt": bt, "first_rows": tdx[:3].tolist(), "expected_first_rows": exp[:3].tolist()}, step)
            ctx.count("probe.border_checked")
        # the factors are the generator's own sub-batches, in their own row order: when get_batch is the
        # composition inside_batch -> border_batch -> temporal_batch from the state before the call (decided by
        # comparing the resulting generator with the one get_batch returned, so a refactoring that advances the
        # sub-streams in another order switches this check off instead of raising an alarm), T, X and the border
        # rows must be exactly those sub-batches
        try:
            g1, x_ref = t.g.inside_batch()
            g2, dx_ref = g1.border_batch()
            g3, t_ref = g2.temporal_batch()
            same = all(np.array_equal(ts_arr(a), ts_arr(b_)) for a, b_ in zip(jax.tree_util.tree_leaves(g3), jax.tree_util.tree_leaves(g)))
        except Exception:  # noqa: BLE001
            same = False
        if same:
            ctx.count("probe.sub_batch_oracle")
            if not np.array_equal(np.asarray(t_ref).reshape(-1), T):
                fail("factor-is-not-the-temporal-batch", t, "times", {"T": T.tolist(), "temporal_batch": np.asarray(t_ref).reshape(-1).tolist()}, step)
            if not np.array_equal(np.asarray(x_ref), X):
                fail("factor-is-not-the-spatial-batch", t, "inside", {"X": X.tolist(), "inside_batch": np.asarray(x_ref).tolist()}, step)
            if DX is not None and dim == 2 and not np.array_equal(np.asarray(dx_ref), DX):
                fail("factor-is-not-the-spatial-batch", t, "border", {}, step)
        else:
            ctx.count("probe.sub_batch_oracle_off")
        # history part: the factors are what the sub-streams serve
        phases = []
        for v in gensim.substreams(s, g, b):
            m = t.models[v["name"]]
            m.step(v, ctx, step)
            phases.append((m.name, m.phase))
        if bt >= 2 and bx >= 2 and len(set(T.tolist())) == bt and len({tuple(x) for x in X.tolist()}) == bx and t.calls >= 2:
            nontriv[0] = True
        ctx.count("probe.cartesian" if s["cartesian"] else "probe.paired")
        ctx.state((dim, s["cartesian"], s["bb"] is not None, tuple(phases), op["mode"]))

    tasks = gensim.run_program(program, ctx, on_construct, on_call)
    ctx.nontrivial = nontriv[0]
    ctx.key = [[t.spec for t in tasks], sorted(modes)]


def shrink(program):
    from sim import gensim as gg

    yield from gg.shrink_program(program)
