"""C18 -- on non-finite parameters training stops and returns the last finite ones."""

from __future__ import annotations

ID = "C18"
ENGINE = "trainsim"
LEVEL = "fault_enumeration"
EXPECTED_S_PER_RUN = 4.0
CHUNKING = "contiguous"  # the 72/144 faults of one program share compiled loops (fault position is optimizer *state*)
MAX_CHUNK = 48

N_IT = {"quick": 6, "thorough": 12}
ORIGINS = ["update-nn", "update-eq", "grad-nn", "grad-eq", "loss-data", "loss-domain"]
KINDS = ["nan", "inf"]
N_PROG = {"quick": 10, "thorough": 60}


def _F(tier):
    return N_IT[tier] * len(ORIGINS) * len(KINDS)


N_DOUBLE = {"quick": 48, "thorough": 1000}  # fault SEQUENCES: two faults in one run
TIERS = {t: N_PROG[t] * _F(t) + N_DOUBLE[t] for t in ("quick", "thorough")}

RULE = (
    "fault enumeration: for each of P sampled training programs (equation kind x optimizer x tracked spec x loop driver; "
    "horizon n = 6 quick / 12 thorough; P = 10 quick / 60 thorough) a single fault is injected at EVERY iteration k in [0,n) "
    "from EVERY origin {optimizer update of a network leaf, update of an equation parameter, gradient of a network leaf, "
    "gradient of an equation parameter, loss value through a poisoned observation row (row k), loss value through the "
    "equation's domain (log of a parameter driven below 0; k varies the step size)} and of EVERY kind {NaN, +Inf}. +Inf makes "
    "a parameter infinite, not NaN, so the NaN may arise one or more iterations later: the reference loop applies the "
    "property's own rule (abort when a NaN appears in the parameters). Non-trivial = the reference saw a NaN parameter "
    "(the fault fired); distinct = distinct (program, origin, kind, failing iteration). In addition 48 (quick) / 1000 (thorough) "
    "runs inject a SEQUENCE of two faults (any two of the four optimizer-side origins, values NaN/+Inf/-Inf, k1 <= k2) into a fresh random program."
)
STATE_MEASURE = "(equation kind, optimizer kind, driver, fault origin, fault kind, failing position in {none, first, interior, last})"
REAL = ["jinns.solve (NaN guard in _gradient_step, loop condition in break_fun, _check_nan_in_pytree, history stores)",
        "jinns losses and generators", "optax optimizers"]
STUB = ["fault stages chained before/after the real optimizer (armed through the optimizer state)", "poisoned observation table",
        "equation with a log domain", "reference loop M3 with the NaN-abort rule"]
ASSUMPTIONS = [
    "the failing iteration is whatever the reference loop observes (first NaN in the parameters after an update)",
    "float64: rtol 1e-8; NaN compared as NaN, Inf as Inf",
]
TOLERANCES = {"x64": "rtol 1e-8 atol 1e-10, NaN==NaN, Inf==Inf", "x32": "rtol 5e-3"}


def float_mode(r):
    # one float mode per PROGRAM (all faults of a program share it)
    return "x64"


def _decode(r, tier):
    F = _F(tier)
    p, f = divmod(r, F)
    k, rest = divmod(f, len(ORIGINS) * len(KINDS))
    o, kind = divmod(rest, len(KINDS))
    return p, k, ORIGINS[o], KINDS[kind]


def _inactive_rar(prng, prog):
    """Option combination: the main generator is configured for refinement but its start iteration lies far
    beyond the horizon, so no refinement ever happens (only kinds for which refinement is supported)."""
    d = prog["data"]
    ok = d["kind"] == "ode" or (d["kind"] in ("statio", "nonstatio") and d["dim"] == 2 and d.get("cartesian", True))
    if not ok or prng.random() >= 0.4:
        return
    rp = {"start_iter": 10**6, "update_every": 1}
    rar = {"params": rp}
    if d["kind"] in ("ode", "nonstatio"):
        rar["nt_start"] = d["nt"]
        rp.update(sample_size_times=3, selected_sample_size_times=1)
    if d["kind"] in ("statio", "nonstatio"):
        rar["n_start"] = d["n"]
        rp.update(sample_size_omega=3, selected_sample_size_omega=1)
    prog["rar"] = rar


def generate(rng, tier, r):
    from sim import core
    from sim.props import C07

    if r >= N_PROG[tier] * _F(tier):
        # two-fault sequence: e.g. +Inf in a gradient at k1, NaN in an update at k2 >= k1
        prog = C07.gen_training_program(rng, 0, tier, max_total=N_IT[tier], allow_segments=False)
        prog["float"] = "x64"
        n = N_IT[tier]
        prog["segments"] = [{"n": n}]
        prog["verbose"] = False
        if prog["eq"] == "sysode":
            prog["dkeys"] = "default"
        k1 = rng.randrange(n)
        k2 = rng.randrange(k1, n)
        fl = []
        for kk in (k1, k2):
            o = rng.choice(["update-nn", "update-eq", "grad-nn", "grad-eq"])
            fl.append({"origin": "update" if o.startswith("update") else "grad", "at": kk,
                       "leaf": "eq:a" if o.endswith("eq") else f"nn:{rng.randrange(8)}", "value": rng.choice(["nan", "inf", "inf", "-inf"])})
        prog["faults"] = fl
        prog["fault"] = {"origin": "sequence", "kind": "+".join(f["value"] for f in fl), "k": k1, "program": r}
        if prog["eq"] != "sysode" and rng.random() < 0.35:
            # a NaN-filtering optimizer and a poisoned observation row before the optimizer-side faults: the loss value
            # is NaN at some iteration while the (filtered) update is finite and the equation parameters still move
            from sim import trainsim as tm

            d = prog["data"]
            if d["kind"] == "nonstatio" and not d["cartesian"] and d["bt"] != 1:
                d["cartesian"] = True
                prog["param_data"] = None
            mb = tm.main_batch_size(d)
            if prog.get("param_data"):
                prog["param_data"]["b"] = mb
                prog["param_data"]["n"] = max(prog["param_data"]["n"], mb)
            prog["obs_data"] = {"key": rng.randrange(2**31), "n": mb * 2 + 1, "b": mb, "params": [], "nan_row": rng.randrange(mb * 2 + 1), "nan_value": "nan"}
            prog.pop("obs_slice", None)
            prog["dkeys"] = "both"
            prog["opt"] = {"kind": "zero_nans_sgd", "lr": rng.choice([1e-2, 2e-2])}
            prog["faults"] = [f for f in fl if f["at"] >= 1][-1:] or fl[-1:]
            prog["fault"]["kind"] = "nan-loss-filtered+" + prog["faults"][-1]["value"]
        _inactive_rar(rng, prog)
        return prog
    p, k, origin, kind = _decode(r, tier)
    prng = core.run_rng(core.verif_seed(), ID, p, stream="program")
    prog = C07.gen_training_program(prng, 0, tier, max_total=N_IT[tier], allow_segments=False)
    prog["float"] = "x64"
    n = N_IT[tier]
    prog["segments"] = [{"n": n}]
    prog["verbose"] = False
    prog["fault"] = {"origin": origin, "kind": kind, "k": k, "program": p}
    if origin != "loss-domain":
        _inactive_rar(prng, prog)
    if prng.random() < 0.25:
        # option combination: a validation module (that never asks to stop) is present while the fault happens
        prog["validation"] = {"kind": "scripted", "period": prng.choice([1, 2, 3]),
                              "script": [{"improved": prng.random() < 0.5, "stop": False} for _ in range(3)]}
    if prog["eq"] == "sysode":
        prog["dkeys"] = "default"
    if origin in ("update-nn", "update-eq", "grad-nn", "grad-eq"):
        leaf = "eq:a" if origin.endswith("eq") else f"nn:{prng.randrange(8)}"
        prog["faults"] = [{"origin": "update" if origin.startswith("update") else "grad", "at": k, "leaf": leaf, "value": kind}]
    elif origin == "loss-data":
        from sim import trainsim as tm

        mb = tm.main_batch_size(prog["data"])
        d = prog["data"]
        if d["kind"] == "nonstatio" and not d["cartesian"] and d["bt"] != 1:
            # aux generators unsupported there: switch to the cartesian product
            d["cartesian"] = True
            mb = tm.main_batch_size(d)
            prog["param_data"] = None
        if prog.get("param_data"):
            prog["param_data"]["b"] = mb
            prog["param_data"]["n"] = max(prog["param_data"]["n"], mb)
        nrows = mb * 2 + 1
        prog["obs_data"] = {"key": 77 + p, "n": nrows, "b": mb, "params": [], "nan_row": k, "nan_value": kind}
    else:  # loss-domain
        prog["eq"] = "ode"
        prog["form"] = "log"
        d = prog["data"]
        if d["kind"] != "ode":
            prog["data"] = {"kind": "ode", "key": d["key"], "nt": 9, "bt": 4, "tmin": 0.0, "tmax": 1.0, "method": "uniform"}
        prog["param_data"] = None
        prog["obs_data"] = None
        prog["terms"] = {"ic": True, "bc": None, "norm": False}
        prog["dkeys"] = "both"
        prog["eq_params"] = {"a": [0.02, 0.05, 0.1, 0.3, 0.6, 1.0, 0.04, 0.08, 0.2, 0.4, 0.8, 1.5][k % 12], "b": prog["eq_params"]["b"]}
        prog["opt"] = {"kind": "sgd", "lr": 0.5 if kind == "nan" else 0.1}
        if prog.get("tracked") is not None:
            prog["tracked"] = {"a": True, "b": prog["tracked"].get("b")}
    return prog


def execute(program, ctx):
    import numpy as np
    import jax
    from sim import trainsim as ts
    from sim.core import Violation

    if program.get("obs_data") and program["obs_data"].get("params"):
        ts._fresh_code_solve()
    P = ts.build(program)
    n = program["segments"][0]["n"]
    fault = program.get("fault", {})
    origin = fault.get("origin", "none")

    cond = {}

    def fail(inv, what, details):
        if inv in ("wrong-parameters-returned", "history") and cond.get("args") is not None and ts.ill_conditioned(*cond["args"], observed=cond.get("observed")):
            raise ts.Unsupported(f"ill-conditioned training (reference not determined to within the tolerance): {inv}")
        raise Violation(ID, inv, f"{ID}.{inv}/{program['eq']}/{program['opt']['kind']}/{program['driver']}/{origin}/{what}", details, None)

    carries = []
    vmod = None
    if program.get("validation"):
        vmod = ts.scripted_validation(program["validation"]["period"], program["validation"]["script"])
        ctx.count("probe.with_validation_module")
    if program.get("rar"):
        ctx.count("probe.with_refinement_configured_generator")
    if program["opt"]["kind"] == "zero_nans_sgd":
        ctx.count("probe.nan_filtering_optimizer")
    out, stdout = ts.call_solve(P, n, P.params, P.data, P.param_data, P.obs_data, P.init_opt_state, validation=vmod,
                                driver=program["driver"], verbose=False,
                                observer=(lambda c: carries.append(c)) if program["driver"] == "M2" else None)
    o_params, o_loss, o_terms, o_data, o_lossobj, o_opt, o_stored, _, _ = out
    ctx.sim_time += n
    chosen = None
    for w in (1, 0):
        R = ts.reference(P, n, P.params, P.data, P.param_data, P.obs_data, P.init_opt_state, warmup=w)
        if ts.gen_equal(o_data, R.data):
            chosen = (w, R)
            break
    if chosen is None:
        # the generator is where "stops after that iteration" shows: a loop that ran on would have drawn more batches
        R = ts.reference(P, n, P.params, P.data, P.param_data, P.obs_data, P.init_opt_state, warmup=1)
        kf = R.k_fail
        fail("stopped-at-wrong-iteration", "generator-advance",
             {"k_fail": kf, "note": "returned generator differs from the reference generator at the abort point"})
    w, R = chosen
    cond["args"] = (P, n, P.params, P.data, P.param_data, P.obs_data, P.init_opt_state, w, R)
    cond["observed"] = (ts.maxdiff(o_params, R.params), None)
    kf = R.k_fail
    fired = R.stop_reason == "nan"
    n_run = R.n_run
    # returned parameters: the ones held just before the failing update; NaN-free
    if ts.has_nan(o_params):
        fail("returned-nan", "params", {"k_fail": kf})
    if not ts.tree_close(o_params, R.params):
        before = ts.tree_close(o_params, R.params_before[kf - 1]) if (fired and kf and kf >= 1) else None
        fail("wrong-parameters-returned", "params",
             {"k_fail": kf, "maxdiff": ts.maxdiff(o_params, R.params), "equals_params_one_iteration_earlier": before,
              "equals_initial": bool(ts.tree_close(o_params, P.params))})
    # histories: reference up to and including k_fail, untouched afterwards
    exp = np.zeros(n)
    exp[:n_run] = [float(x) for x in R.loss]
    got = np.asarray(o_loss, dtype=np.float64)
    if got.shape != (n,) or not ts.close(got, exp):
        late = bool(np.any(got[n_run:] != 0)) if got.shape == (n,) else None
        fail("history-after-abort-touched" if late else "history", "loss", {"k_fail": kf, "got": got.tolist(), "expected": exp.tolist()})
    for key in R.terms[0]:
        e = np.zeros(n)
        e[:n_run] = [float(t[key]) for t in R.terms]
        g = np.asarray(o_terms[key], dtype=np.float64)
        if not ts.close(g, e):
            late = bool(np.any(g[n_run:] != 0))
            fail("history-after-abort-touched" if late else "history", "term", {"term": key, "k_fail": kf, "got": g.tolist(), "expected": e.tolist()})
    tr = program.get("tracked")
    if tr:
        for kname, flag in tr.items():
            if flag is True:
                h = np.asarray(o_stored.eq_params[kname], dtype=np.float64).reshape(n)
                e = np.zeros(n)
                e[:n_run] = [float(np.asarray(p.eq_params[kname])) for p in R.params_after]
                if not ts.close(h, e):
                    late = bool(np.any(h[n_run:] != 0))
                    fail("history-after-abort-touched" if late else "history", "tracked", {"key": kname, "k_fail": kf, "got": h.tolist(), "expected": e.tolist()})
    if program["driver"] == "M2":
        if len(carries) != n_run + 1:
            fail("stopped-at-wrong-iteration", "carries", {"k_fail": kf, "iterations_run": len(carries) - 1, "expected": n_run})
    pos = "none"
    if fired:
        pos = "first" if kf == 0 else ("last" if kf == n - 1 else "interior")
        ctx.count(f"fault.{origin}.{fault.get('kind')}")
        ctx.count("probe.fail_" + pos)
        if origin == "sequence":
            ctx.count("probe.fault_sequence_fired")
        if fault.get("kind") == "inf" and origin not in ("loss-data", "loss-domain") and kf != fault.get("k"):
            ctx.count("probe.inf_then_nan_later")
    else:
        ctx.count("probe.fault_not_fired")
    ctx.count("fault.driver_" + program["driver"])
    ctx.nontrivial = fired
    ctx.key = [fault.get("program"), origin, fault.get("kind"), kf, fault.get("k")]
    ctx.state((program["eq"], program["opt"]["kind"], program["driver"], origin, fault.get("kind"), pos))
    ctx.log.add("result", k_fail=kf, losses=got, params=[np.asarray(x) for x in jax.tree_util.tree_leaves(o_params)])


def shrink(program):
    from sim.props import C07

    for c in C07.shrink(program):
        if c.get("segments") and len(c["segments"]) == 1:
            f = program.get("fault", {})
            # keep the fault inside the horizon
            if program.get("faults") and c["segments"][0]["n"] <= program["faults"][0]["at"]:
                continue
            if f.get("origin") == "loss-data" and c.get("obs_data") is None:
                continue
            yield c


def evidence_extra(ok, tier):
    F = _F(tier)
    single = [r for r in ok if r["r"] < N_PROG[tier] * F]
    per_prog = {}
    for r in single:
        per_prog.setdefault(r["r"] // F, 0)
        per_prog[r["r"] // F] += 1
    return {
        "fault_enumeration": {
            "description": "per sampled program: every iteration of the horizon x 6 origins x 2 kinds, one fault per run",
            "programs": len(per_prog),
            "faults_per_program": F,
            "programs_fully_enumerated": sum(1 for v in per_prog.values() if v == F),
            "fault_sequences_sampled": len(ok) - len(single),
        }
    }
