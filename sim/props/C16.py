"""C16 -- residual-adaptive refinement follows its schedule and never exceeds capacity."""

from __future__ import annotations

ID = "C16"
ENGINE = "trainsim"
LEVEL = "exploration"
EXPECTED_S_PER_RUN = 6.0
TIERS = {"quick": 200, "thorough": 2500}

RULE = (
    "each run draws a refinement program: generator kind (ODE, system of ODEs, stationary 2-D, space-time 2-D cartesian), "
    "start iteration in {0..6, beyond the horizon}, period 1-4, store sizes 6-24 with initial counts 1..n-1 (time and space "
    "equal or different), candidate/selected sizes, and a horizon chosen so that about 40% of the runs exhaust the "
    "pre-allocated store. The real solve() is stepped by its python-loop driver (M2) and the generator is inspected after "
    "EVERY iteration against an integer model of the schedule (steps at start + k*period while a full set still fits; "
    "active counts n_start + J*selected for time and space independently); 30% of the runs also execute the compiled "
    "driver (M1) whose final generator must be bit-identical to M2's. Non-trivial: at least one refinement step happened; "
    "distinct = distinct (kind, schedule, sizes, horizon)."
)
STATE_MEASURE = "(generator kind, period, start position, #steps done capped at 4, capacity exhausted?, time/space initial counts equal?)"
REAL = ["jinns.solve + trigger_rar / _proceed_to_rar / rar_step_true / rar_step_false / init_rar", "RAR-enabled data generators", "losses, optax"]
STUB = ["tiny MLP PINNs, analytic equations", "integer schedule model"]
ASSUMPTIONS = ["'active' = non-zero sampling probability (p_times / p_omega), as in the property", "refinement with a 1-D PDE generator raises on the pinned tree and is outside the supported space"]
TOLERANCES = {"counts": "exact"}


def float_mode(r):
    return "x32" if r % 4 == 3 else "x64"


def generate(rng, tier, r):
    from sim import trainsim as ts

    return ts.gen_rar_program(rng, r, tier, float_mode(r))


def model_steps(program, upto=None):
    """Integer model: list J(i) = number of refinement steps done after GLOBAL iteration i.
    Every solve() call (segment) restarts the iteration clock and the period counter;
    the number of steps done carries over with the generator."""
    rar = program["rar"]
    rp = rar["params"]
    d = program["data"]
    dims = []
    if "nt_start" in rar:
        dims.append((d["nt"], rar["nt_start"], rp["selected_sample_size_times"]))
    if "n_start" in rar:
        dims.append((d["n"], rar["n_start"], rp["selected_sample_size_omega"]))
    J, out, local = 0, [], []
    for seg in program["segments"]:
        for i in range(seg["n"]):
            due = i >= rp["start_iter"] and (i - rp["start_iter"]) % rp["update_every"] == 0
            room = all(s0 + (J + 1) * sel <= n for (n, s0, sel) in dims)
            if due and room:
                J += 1
            out.append(J)
            local.append(i)
    return out, dims, local


def execute(program, ctx):
    import numpy as np
    from sim import trainsim as ts
    from sim.core import Violation

    T = ts.run_rar(dict(program, prop=ID))
    n = sum(s["n"] for s in program["segments"])
    rar = program["rar"]
    rp = rar["params"]
    kind = program["data"]["kind"]
    every = rp["update_every"]
    resumed = len(program["segments"]) > 1

    def fail(inv, what, details, step=None):
        e = "every1" if every == 1 else "every>1"
        raise Violation(ID, inv, f"{ID}.{inv}/{program['eq']}/{e}/{'resumed/' if resumed else ''}{what}", dict(details, rar=rar, segments=program["segments"]), step)

    if len(T.snaps) != n:
        fail("iteration-count", "carries", {"got": len(T.snaps)})
    ctx.sim_time += n
    Js, dims, local = model_steps(program)
    fields = []
    if "nt_start" in rar:
        fields.append(("times", "p_times", program["data"]["nt"], rar["nt_start"], rp["selected_sample_size_times"]))
    if "n_start" in rar:
        fields.append(("omega", "p_omega", program["data"]["n"], rar["n_start"], rp["selected_sample_size_omega"]))
    # before the loop
    s0 = T.snaps[0][0]
    for name, pf, size, st0, sel in fields:
        if int(np.count_nonzero(s0[pf] > 0)) != st0 or s0[pf].shape[0] != size:
            fail("initial-mask", name, {"active": int(np.count_nonzero(s0[pf] > 0)), "declared": st0})
    # a resumed call must take the generator over as it was returned
    for (g_it, returned, taken) in T.bounds:
        if taken["rar_iter_nb"] != returned["rar_iter_nb"]:
            fail("resume-lost-steps", "count", {"at_iteration": g_it, "returned": returned["rar_iter_nb"], "taken_over": taken["rar_iter_nb"]}, g_it)
        for name, pf, size, st0, sel in fields:
            if int(np.count_nonzero(taken[pf] > 0)) != int(np.count_nonzero(returned[pf] > 0)):
                fail("resume-lost-steps", name, {"at_iteration": g_it}, g_it)
        ctx.count("fault.stop_resume")
    first_step_seen = None
    for i in range(n):
        sb, s = T.snaps[i]
        J = Js[i]
        li = local[i]
        got_J = s["rar_iter_nb"]
        got_prev = sb["rar_iter_nb"]
        prevJ = Js[i - 1] if i else 0
        if got_prev != prevJ:
            fail("step-count", "before-iteration", {"iteration": i, "expected_steps": prevJ, "got": got_prev}, i)
        if got_J != J:
            if li < rp["start_iter"]:
                fail("step-before-start", "count", {"iteration": i, "local_iteration": li, "steps": got_J}, i)
            if got_J == got_prev and J == prevJ + 1:
                # a scheduled step did not happen
                if li == rp["start_iter"]:
                    fail("first-step-late", "missed-at-start", {"iteration": i, "local_iteration": li, "start": rp["start_iter"], "every": every}, i)
                fail("step-missed", "schedule", {"iteration": i, "local_iteration": li, "expected_steps": J, "got": got_J}, i)
            if got_J == got_prev + 1 and J == prevJ:
                room = all(st0 + (prevJ + 1) * sel <= size for (_, _, size, st0, sel) in fields)
                if not room:
                    fail("step-beyond-capacity", "schedule", {"iteration": i, "steps": got_J}, i)
                fail("step-off-schedule", "schedule", {"iteration": i, "local_iteration": li, "expected_steps": J, "got": got_J, "start": rp["start_iter"], "every": every}, i)
            fail("step-count", "schedule", {"iteration": i, "expected_steps": J, "got": got_J}, i)
        for name, pf, size, st0, sel in fields:
            act = int(np.count_nonzero(s[pf] > 0))
            if act > size or s[pf].shape[0] != size:
                fail("active-exceeds-store", name, {"iteration": i, "active": act, "store": size}, i)
            if act != st0 + J * sel:
                fail("active-count", name, {"iteration": i, "steps": J, "active": act, "expected": st0 + J * sel}, i)
        if J >= 1 and first_step_seen is None:
            first_step_seen = li
    Jf = Js[-1] if Js else 0
    if T.m1 is not None:
        d1 = T.m1[3]
        d2 = T.out[3]
        if not ts.gen_equal(d1, d2):
            fail("drivers-disagree", "final-generator", {"m1_steps": int(np.asarray(d1.rar_iter_nb)), "m2_steps": int(np.asarray(d2.rar_iter_nb))})
        ctx.count("probe.M1_equals_M2")
    exhausted = any(st0 + (Jf + 1) * sel > size for (_, _, size, st0, sel) in fields)
    if Jf >= 1:
        ctx.count("probe.first_step")
        if first_step_seen == rp["start_iter"]:
            ctx.count("probe.step_exactly_at_start")
    if exhausted:
        ctx.count("fault.capacity_exhausted")
        # were there scheduled slots after exhaustion (steps that had to be refused)?
        last = max((i for i in range(n) if (Js[i] > (Js[i - 1] if i else 0))), default=None)
        if last is not None and any(i > last and local[i] >= rp["start_iter"] and (local[i] - rp["start_iter"]) % every == 0 for i in range(n)):
            ctx.count("probe.step_refused_after_exhaustion")
    if rp["start_iter"] >= max(sg["n"] for sg in program["segments"]):
        ctx.count("probe.start_beyond_horizon")
    if len(fields) == 2 and fields[0][3] != fields[1][3]:
        ctx.count("probe.nt_start_differs_from_n_start")
    ctx.nontrivial = Jf >= 1
    ctx.key = [program["eq"], rar, program["data"], [sg["n"] for sg in program["segments"]]]
    startpos = "beyond" if rp["start_iter"] >= n else ("zero" if rp["start_iter"] == 0 else "interior")
    ctx.state((program["eq"], every, startpos, min(Jf, 4), exhausted, len(fields) == 2 and fields[0][3] == fields[1][3], resumed))
    ctx.log.add("result", steps=Js, final=[T.snaps[-1][1].get("p_times"), T.snaps[-1][1].get("p_omega")])


def shrink(program):
    segs = program["segments"]
    if len(segs) > 1:
        yield dict(program, segments=[{"n": sum(x["n"] for x in segs)}])
        yield dict(program, segments=[{"n": segs[0]["n"]}])
    for k, sg in enumerate(segs):
        n = sg["n"]
        for nv in sorted({1, 2, n // 2, n - 1}):
            if 1 <= nv < n:
                yield dict(program, segments=segs[:k] + [dict(sg, n=nv)] + segs[k + 1:])
    if program.get("also_M1"):
        yield dict(program, also_M1=False)
    rp = program["rar"]["params"]
    if rp["start_iter"] > 0:
        yield dict(program, rar=dict(program["rar"], params=dict(rp, start_iter=0)))
        yield dict(program, rar=dict(program["rar"], params=dict(rp, start_iter=rp["start_iter"] - 1)))
    if rp["update_every"] > 1:
        yield dict(program, rar=dict(program["rar"], params=dict(rp, update_every=rp["update_every"] - 1)))
    if program["terms"].get("ic"):
        yield dict(program, terms=dict(program["terms"], ic=False))
    if program["opt"]["kind"] != "sgd":
        yield dict(program, opt={"kind": "sgd", "lr": 1e-2})
