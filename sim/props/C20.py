"""C20 -- loss evaluation and batch drawing are pure and compilation-invariant."""

from __future__ import annotations

ID = "C20"
ENGINE = "puritysim"
LEVEL = "exploration"
EXPECTED_S_PER_RUN = 5.0
TIERS = {"quick": 240, "thorough": 4000}

RULE = (
    "each run draws one set of shared objects: a loss (LossODE, LossPDEStatio 1-D/2-D, LossPDENonStatio 1-D/2-D, SystemLossODE, "
    "SystemLossPDE) with optional boundary/initial/normalisation terms, parameters, a batch with or without parameter and "
    "observation parts, and the generators in a state reached after 0-5 draws; then a seeded sequence of 3-12 (quick) / 3-24 "
    "(thorough) calls over {evaluate eager, evaluate under jit, loss.__call__, value_and_grad eager, value_and_grad jitted, "
    "get_batch eager, get_batch jitted} on those SAME objects. Deep snapshots (bytes, dtype, shape of every array; structure; "
    "identity and contents of the python containers, incl. static fields) are compared around every call; a repeated call "
    "must be bit-identical; modes must agree numerically (x64: rtol 1e-8); get_batch on the same generator state must always "
    "return the same (state, batch). Non-trivial: at least one compiled and one eager call and >= 3 calls; distinct = "
    "distinct (loss kind, batch parts, call sequence, generator spec, network key)."
)
STATE_MEASURE = "(loss kind, batch parts in {-, P, O, PO}, call kind, set of call kinds executed before)"
REAL = ["jinns loss classes (evaluate / __call__), jinns.parameters._update_eq_params_dict, data generators' get_batch", "jax.jit, jax.value_and_grad"]
STUB = ["tiny MLP PINNs, analytic equations, synthetic observation tables", "deep snapshot comparator"]
ASSUMPTIONS = ["SystemLossODE with a parameter batch raises NameError on the pinned tree: outside the supported space (not generated)"]
TOLERANCES = {"x64": "eager vs jit vs value_and_grad primal: rtol 1e-8 atol 1e-10; repeats and get_batch: bit-identical", "x32": "rtol 5e-3"}


def float_mode(r):
    return "x32" if r % 4 == 3 else "x64"


def generate(rng, tier, r):
    from sim import puritysim as ps

    return ps.gen_program(rng, r, tier, float_mode(r))


def execute(program, ctx):
    from sim import puritysim as ps

    if program.get("obs_data") and program["obs_data"].get("params"):
        import jax

        jax.clear_caches()
    ps.run(program, ctx, ID)


def shrink(program):
    calls = program["calls"]
    n = len(calls)
    if n > 1:
        yield dict(program, calls=calls[n // 2:])
        yield dict(program, calls=calls[: n // 2])
        for i in range(n):
            yield dict(program, calls=calls[:i] + calls[i + 1:])
    if program.get("draws"):
        yield dict(program, draws=0)
    for k in ("param_data", "obs_data"):
        if program.get(k) is not None:
            yield dict(program, **{k: None})
    t = program.get("terms", {})
    for k in ("bc", "norm", "ic"):
        if t.get(k):
            yield dict(program, terms=dict(t, **{k: None if k == "bc" else False}))
