"""C15 -- observation and parameter loaders keep rows aligned with the user's tables."""

from __future__ import annotations

ID = "C15"
ENGINE = "gensim"
LEVEL = "exploration"
EXPECTED_S_PER_RUN = 2.0
KINDS = ["obs", "param", "obsmulti"]
TIERS = {"quick": 400, "thorough": 10000}

RULE = (
    "each run draws 1-2 loaders (DataGeneratorObservations with 1-D/2-D inputs and values and 0-2 observed parameters; "
    "DataGeneratorParameter with 1-3 keys, each from a range, a user table of shape (n,) or (n,1), or both; "
    "DataGeneratorObservationsMultiPINNs with 2-3 networks, some without observations) and a seeded schedule of "
    "get_batch ops (eager / jit / lax.scan(k) / pytree round trip). Tables are row-identity encoded (row r recognisable "
    "in every column) and parameter ranges are disjoint per key, so that the provenance of every served value is decidable. "
    "Non-trivial: at least one reshuffle after a complete epoch and a table with >= 3 rows and >= 2 aligned columns; "
    "distinct = distinct (specs, schedule modes)."
)
STATE_MEASURE = "(loader kind, #columns / #keys, source of each key in {range, table, both}, phase of the index stream, execution mode)"
REAL = ["jinns.data.DataGeneratorObservations / DataGeneratorParameter / DataGeneratorObservationsMultiPINNs"]
STUB = ["user tables (row-identity encoding: pinn_in[r,j]=r+1000+100j, val[r,j]=r+5000+100j, eq_params[k][r]=r+9000+100 idx(k))",
        "reference RowIdentity decoder + EpochModel on the decoded row index"]
ASSUMPTIONS = [
    "an 'empty entry' for a network without observations is None or an empty container",
    "with a single PRNG key the key->parameter assignment of DataGeneratorParameter depends on PYTHONHASHSEED (set iteration); "
    "workers force PYTHONHASHSEED=0 and those runs log shapes only",
]
TOLERANCES = {"decoding": "exact in float32/float64 (integers < 2^24)"}


def float_mode(r):
    return "x32" if r % 4 == 3 else "x64"


def generate(rng, tier, r):
    from sim import gensim as gg

    thorough = tier == "thorough"
    return gg.gen_program(rng, KINDS, max_tasks=2, max_ops=120 if thorough else 30,
                          nmax=60 if thorough else 24, float_mode=float_mode(r))


def execute(program, ctx):
    import numpy as np
    from sim import gensim
    from sim.core import Violation

    modes = set()
    nontriv = [False]

    def fail(inv, t, what, details, step):
        raise Violation(ID, inv, f"{ID}.{inv}/{t.spec['kind']}/{what}", dict(details, spec=t.spec), step)

    def check_obs(t, net, batch, what, step, off=0.0):
        """net: {n, in_dim, val_dim, params}, batch: dict pinn_in/val/eq_params; off = offset of this network's tables."""
        b = t.spec["b"]
        if not isinstance(batch, dict) or set(batch.keys()) != {"pinn_in", "val", "eq_params"}:
            fail("batch-structure", t, what, {"got": str(type(batch))}, step)
        pin, val = np.asarray(batch["pinn_in"]), np.asarray(batch["val"])
        cin, cval = max(net["in_dim"], 1), max(net["val_dim"], 1)
        if pin.shape != (b, cin) or val.shape != (b, cval):
            fail("batch-shape", t, what, {"pinn_in": list(pin.shape), "val": list(val.shape), "expected": [[b, cin], [b, cval]]}, step)
        r = np.rint(pin[:, 0] - gensim.C_IN)
        if np.any(r - off < 0) or np.any(r - off >= net["n"]):
            fail("row-not-in-table", t, what, {"decoded": (r - off).tolist()}, step)
        for j in range(cin):
            if not np.array_equal(pin[:, j], r + gensim.C_IN + 100 * j):
                fail("misaligned", t, what + "/pinn_in", {"col": j, "rows": r.tolist(), "got": pin[:, j].tolist()}, step)
        for j in range(cval):
            if not np.array_equal(val[:, j], r + gensim.C_VAL + 100 * j):
                fail("misaligned", t, what + "/val", {"col": j, "rows": r.tolist(), "got": val[:, j].tolist()}, step)
        eq = batch["eq_params"]
        if set(eq.keys()) != set(net["params"]):
            fail("batch-structure", t, what + "/eq_params", {"got": sorted(eq.keys()), "expected": sorted(net["params"])}, step)
        for i, k in enumerate(sorted(net["params"])):
            col = np.asarray(eq[k])
            if col.shape != (b, 1):
                fail("batch-shape", t, what + "/eq_params", {"key": k, "got": list(col.shape)}, step)
            if not np.array_equal(col[:, 0], r + gensim.C_PAR + 100 * i):
                fail("misaligned", t, what + "/eq_params", {"key": k, "rows": r.tolist(), "got": col[:, 0].tolist()}, step)
        if len(set(r.tolist())) != b:
            fail("duplicate-row-in-batch", t, what, {"rows": r.tolist()}, step)
        return cin + cval + len(net["params"])

    def on_construct(t):
        s, g = t.spec, t.g
        for v in gensim.substreams(s, g, None):
            t.models[v["name"]] = gensim.EpochModel(ID, s["kind"], v)
        if s["kind"] == "param":
            names = sorted(set(s["ranges"]) | set(s["user"]))
            if sorted(g.param_n_samples.keys()) != names:
                fail("batch-structure", t, "store-keys", {"got": sorted(g.param_n_samples.keys())}, None)
            for nm in names:
                st = np.asarray(g.param_n_samples[nm])
                check_param_values(t, nm, st, "store", None, rows=s["n"])

    def check_param_values(t, nm, arr, what, step, rows):
        s = t.spec
        if arr.shape != (rows, 1):
            fail("batch-shape", t, f"{what}/{nm}", {"got": list(arr.shape), "expected": [rows, 1]}, step)
        x = arr[:, 0]
        if nm in s["user"]:
            i = sorted(s["user"]).index(nm)
            r = np.rint(x - gensim.C_PAR - 100 * i)
            ok = np.array_equal(x, r + gensim.C_PAR + 100 * i) and np.all(r >= 0) and np.all(r < s["n"])
            if not ok:
                fail("not-from-own-table", t, f"{what}/{'both' if nm in s['ranges'] else 'user'}", {"key": nm, "got": x[:6].tolist()}, step)
        else:
            lo, hi = s["ranges"][nm]
            lo, hi = np.asarray(lo, x.dtype), np.asarray(hi, x.dtype)
            if not (np.all(x >= lo) and np.all(x <= hi)):
                fail("not-from-own-range", t, f"{what}/range/{s['method']}", {"key": nm, "range": [float(lo), float(hi)], "min": float(x.min()), "max": float(x.max())}, step)

    def on_call(t, g, b, op, step):
        s = t.spec
        k = s["kind"]
        modes.add(op["mode"])
        cols = 0
        if k == "obs":
            cols = check_obs(t, s, b, "obs", step)
        elif k == "param":
            names = sorted(set(s["ranges"]) | set(s["user"]))
            if not isinstance(b, dict) or sorted(b.keys()) != names:
                fail("batch-structure", t, "keys", {"got": sorted(b.keys()) if isinstance(b, dict) else str(type(b))}, step)
            for nm in names:
                check_param_values(t, nm, np.asarray(b[nm]), "batch", step, rows=s["b"])
                src = "both" if (nm in s["user"] and nm in s["ranges"]) else ("user" if nm in s["user"] else "range")
                ctx.count("probe.param_source_" + src)
                if nm in s["user"]:
                    ctx.count("probe.user_shape_" + s["user"][nm])
            if not s.get("keys_as_dict", True):
                ctx.count("probe.single_key")
            cols = len(names)
        else:
            if not isinstance(b, dict) or sorted(b.keys()) != [f"u{i}" for i in range(len(s["nets"]))]:
                fail("batch-structure", t, "networks", {"got": sorted(b.keys()) if isinstance(b, dict) else str(type(b))}, step)
            for i, net in enumerate(s["nets"]):
                e = b[f"u{i}"]
                if net is None:
                    if not (e is None or (hasattr(e, "__len__") and len(e) == 0)):
                        fail("non-empty-entry-for-network-without-observations", t, "multi", {"got": str(e)[:100]}, step)
                    ctx.count("probe.network_without_observations")
                else:
                    cols = max(cols, check_obs(t, net, e, "multi", step, off=i * gensim.NET_OFF))
        phases = []
        for v in gensim.substreams(s, g, b):
            m = t.models[v["name"]]
            m.step(v, ctx, step)
            phases.append((m.name, m.phase))
            if m.epochs >= 1 and m.n >= 3 and cols >= 2:
                nontriv[0] = True
        ctx.state((k, cols, tuple(phases), op["mode"]))

    tasks = gensim.run_program(program, ctx, on_construct, on_call)
    ctx.nontrivial = nontriv[0]
    ctx.key = [[t.spec for t in tasks], sorted(modes)]


def shrink(program):
    from sim import gensim as gg

    yield from gg.shrink_program(program)
