"""C07 -- solve() is observationally the textbook mini-batch training loop."""

from __future__ import annotations

ID = "C07"
ENGINE = "trainsim"
LEVEL = "exploration"
EXPECTED_S_PER_RUN = 8.0
TIERS = {"quick": 160, "thorough": 3000}

RULE = (
    "each run draws a training program: equation kind (ODE, stationary 1-D/2-D, space-time 1-D/2-D, system of 2 ODEs) with an "
    "analytic user equation on a tiny MLP, optional initial/boundary/normalisation/observation terms, derivative keys "
    "(default or 'both'), optimizer (sgd, momentum, adam, adamw, clip+adam+exponential schedule), a main generator whose batch "
    "sizes do or do not divide, optional parameter / observation generators, a tracked-parameter spec, verbose on/off, a list "
    "of 1-3 segments (stop, then resume from what solve returned: full state / optimizer state dropped / generator dropped) "
    "and the loop driver (M1 compiled lax.while_loop, M2 python loop with per-iteration carry observation). Every segment is "
    "compared slot by slot with an independent reference loop. Non-trivial: consecutive reference iterates differ by more than "
    "1e4 x tolerance, at least 3 iterations ran and some generator crossed an epoch boundary; distinct = distinct "
    "(equation, optimizer, aux generators, tracked spec, driver, segment/resume structure) tuples."
)
STATE_MEASURE = "(equation kind, optimizer kind, aux-generator mask, tracked spec kind, driver, #segments, resume modes, epoch crossed?)"
REAL = ["jinns.solve (_one_iteration, _gradient_step, _store_loss_and_params, break_fun, lax.while_loop and python-loop drivers)",
        "jinns losses (LossODE, LossPDEStatio, LossPDENonStatio, SystemLossODE)", "jinns data generators", "optax optimizers"]
STUB = ["tiny MLP PINNs (1-2 hidden layers of 3-5 units)", "analytic user equations", "reference loop M3 (value_and_grad + optimizer.update + apply_updates, jitted per step)"]
ASSUMPTIONS = [
    "numeric equality is decided in float64 (rtol 1e-8, atol 1e-10); float32 runs compare discrete facts exactly and floats at rtol 5e-3",
    "solve() may draw w in {0,1} warm-up batches before the loop as long as the same w explains all generators and all segments",
]
TOLERANCES = {"x64": "rtol 1e-8 atol 1e-10", "x32": "rtol 5e-3 atol 1e-4 (+ exact discrete facts)"}


def float_mode(r):
    return "x32" if r % 4 == 3 else "x64"


def gen_training_program(rng, r, tier, max_total=40, eqs=None, allow_segments=True):
    """Shared by C07/C18/C19: a seed-derived training program (pure python)."""
    from sim import trainsim as ts

    eq = rng.choice(eqs or ts.EQ_KINDS)
    prog = {"float": float_mode(r), "eq": eq}
    prog["net"] = {"key": rng.randrange(2**31), "hidden": [rng.randint(3, 5)] if rng.random() < 0.7 else [rng.randint(3, 4), rng.randint(3, 4)]}
    prog["eq_params"] = {"a": round(rng.uniform(0.5, 1.5), 3), "b": round(rng.uniform(0.5, 1.5), 3)}
    prog["form"] = rng.choice([0, 1])
    prog["data"] = ts.data_spec_for(eq, rng)
    d = prog["data"]
    has_border = d.get("bb") is not None
    prog["terms"] = {
        "ic": rng.random() < 0.8,
        "bc": rng.choice([None, "dirichlet", "neumann"]) if has_border else None,
        "norm": eq.startswith("statio") and rng.random() < 0.3,
    }
    if eq == "nonstatio1" and prog["terms"]["bc"] == "neumann":
        prog["terms"]["bc"] = "dirichlet"  # 1-D space-time Neumann raises on the pinned tree: outside the supported space
    prog["weights"] = {k: rng.choice([1.0, 1.0, 0.5, 2.0]) for k in ("dyn", "ic", "bc", "norm", "obs")}
    if eq == "sysode" and rng.random() < 0.6:
        # per-equation weights given as a dict whose insertion order differs from the equations' order
        prog["weights_dict"] = {"e1": rng.choice([0.5, 1.0, 2.0]), "e2": rng.choice([0.25, 1.5, 3.0]),
                                "order": rng.choice([["e1", "e2"], ["e2", "e1"], ["e2", "e1"]])}
    if eq != "sysode" and rng.random() < 0.2:
        prog["hetero"] = True  # spatio-temporal heterogeneity of parameter a (b left out of the dict: legal)
    prog["dkeys"] = "both" if (eq != "sysode" and rng.random() < 0.5) else "default"
    okind = rng.choice(["sgd", "momentum", "adam", "adamw", "chain"])
    lr = {"sgd": 2e-2, "momentum": 1e-2, "adam": 5e-3, "adamw": 5e-3, "chain": 5e-3}[okind] * rng.choice([0.5, 1.0, 2.0])
    prog["opt"] = {"kind": okind, "lr": lr}
    mb = ts.main_batch_size(d)
    prog["param_data"] = None
    # solve() insists on bt*bo rows for auxiliary generators of a space-time generator even when
    # the batches are paired (bo rows): that combination is outside the supported space
    aux_ok = not (d["kind"] == "nonstatio" and not d["cartesian"] and d["bt"] != 1)
    if aux_ok and eq != "sysode" and rng.random() < 0.3:
        n = mb * rng.randint(1, 3) + rng.choice([0, 0, 1, 2])
        prog["param_data"] = {"kind": "param", "key": rng.randrange(2**31), "n": n, "b": mb,
                              "ranges": {"b": [0.5, 1.5], "a": [0.6, 1.4]} if rng.random() < 0.4 else {"b": [0.5, 1.5]},
                              "user": {}, "method": "uniform", "keys_as_dict": True,
                              "ranges_order": ["b", "a"]}  # non-alphabetical insertion order of the user's dict
        # a parameter batch is vmapped together with every term's own batch: border
        # batches have another row count -> outside the supported space
        prog["terms"]["bc"] = None
        prog["terms"]["norm"] = False
    prog["obs_data"] = None
    if aux_ok and rng.random() < 0.35:
        n = mb * rng.randint(1, 3) + rng.choice([0, 0, 1, 2])
        prog["obs_data"] = {"key": rng.randrange(2**31), "n": n, "b": mb,
                            "params": ["a"] if (eq != "sysode" and prog["param_data"] is None and rng.random() < 0.3) else []}
    if eq == "odevec" and prog["obs_data"] is not None and rng.random() < 0.6:
        prog["obs_slice"] = [1, 2]  # only the second output component is observed
    t = rng.random()
    if t < 0.35:
        prog["tracked"] = None
    else:
        prog["tracked"] = {"a": True, "b": rng.choice([True, False, None])}
    prog["verbose"] = rng.random() < 0.1
    total = rng.randint(3, max_total)
    if allow_segments and rng.random() < 0.5:
        ns = rng.choice([2, 2, 3])
        cuts = sorted(rng.sample(range(1, total), min(ns - 1, total - 1)))
        bounds = [0] + cuts + [total]
        segs = [{"n": bounds[i + 1] - bounds[i]} for i in range(len(bounds) - 1)]
        for s in segs[1:]:
            s["resume"] = rng.choice(["full", "full", "drop_opt", "drop_gen"])
    else:
        segs = [{"n": total}]
    prog["segments"] = segs
    prog["driver"] = "M2" if rng.random() < 0.2 else "M1"
    prog["faults"] = []
    return prog


def generate(rng, tier, r):
    return gen_training_program(rng, r, tier, max_total=40 if tier == "thorough" else 24)


def execute(program, ctx):
    import numpy as np
    import jax
    from sim import trainsim as ts
    from sim.core import Violation

    if program.get("obs_data") and program["obs_data"].get("params"):
        ts._fresh_code_solve()
    P = ts.build(program)
    x64 = program["float"] == "x64"

    NUMERIC = {"loss-history", "term-history", "final-params", "tracked-history", "carry-params"}
    cond = {}

    def fail(inv, what, details, step=None):
        if inv in NUMERIC or (inv == "opt-state" and what == "moments"):
            # a numeric mismatch only counts when the reference itself is determined to within the tolerance
            c = cond.get("args")
            if c is not None and ts.ill_conditioned(*c, observed=cond.get("observed")):
                raise ts.Unsupported(f"ill-conditioned training (reference not determined to within the tolerance): {inv}")
        raise Violation(ID, inv, f"{ID}.{inv}/{program['eq']}/{program['driver']}/{what}", details, step)

    params, data, pdata, odata, opt_state = P.params, P.data, P.param_data, P.obs_data, None
    r_params, r_data, r_pdata, r_odata, r_opt = params, data, pdata, odata, None
    w_global = None
    crossed = False
    moved = True
    total_run = 0
    for si, seg in enumerate(program["segments"]):
        n = seg["n"]
        mode = seg.get("resume", "start")
        if si > 0:
            if mode == "drop_opt":
                opt_state, r_opt = None, None
            if mode == "drop_gen":
                data, r_data = P.data, P.data
        carries = []
        out, stdout = ts.call_solve(P, n, params, data, pdata, odata, opt_state, driver=program["driver"],
                                    verbose=program.get("verbose", False),
                                    observer=(lambda c: carries.append(c)) if program["driver"] == "M2" else None)
        o_params, o_loss, o_terms, o_data, o_lossobj, o_opt, o_stored, o_val, o_best = out
        ctx.sim_time += n
        # --- reference, for the admissible numbers of warm-up draws
        candidates = [w_global] if w_global is not None else [1, 0]
        chosen = None
        for w in candidates:
            R = ts.reference(P, n, r_params, r_data, r_pdata, r_odata, r_opt, warmup=w)
            if ts.gen_equal(o_data, R.data):
                chosen = (w, R)
                break
        if chosen is None:
            # report against the historical convention (one warm-up draw)
            w = candidates[0]
            R = ts.reference(P, n, r_params, r_data, r_pdata, r_odata, r_opt, warmup=w)
            fail("generator-state", "main-generator",
                 {"segment": si, "note": "returned generator is not the reference generator after n (+warm-up) draws",
                  "cursor_fields": [str(np.asarray(x))[:60] for x in ts.gen_state(o_data)[:6]]}, si)
        w, R = chosen
        w_global = w
        cond["args"] = (P, n, r_params, r_data, r_pdata, r_odata, r_opt, w, R)
        ctx.count(f"probe.warmup_{w}")
        if R.stop_reason != "max-iter":
            raise ts.Unsupported("reference produced NaN parameters in a fault-free program")
        # [1] total loss history
        ref_loss = np.array([float(x) for x in R.loss])
        got = np.asarray(o_loss)
        if got.shape == ref_loss.shape:
            dl = np.abs(np.asarray(got, dtype=np.float64) - ref_loss)
            dl = dl[~np.isnan(dl)]
            cond["observed"] = (ts.maxdiff(o_params, R.params), float(dl.max()) if dl.size else 0.0)
        if got.shape != (n,):
            fail("history-shape", "loss", {"got": list(got.shape), "n": n}, si)
        if not ts.close(got, ref_loss):
            bad = int(np.argmax(~np.isclose(got, ref_loss, rtol=ts.tol()[0], atol=ts.tol()[1])))
            shifted = bad + 1 < n and ts.close(got[bad], ref_loss[bad + 1])
            fail("loss-history", "total", {"segment": si, "first_bad": bad, "got": got[max(0, bad - 1):bad + 2].tolist(),
                                           "ref": ref_loss[max(0, bad - 1):bad + 2].tolist(), "looks_shifted": bool(shifted)}, si)
        # [2] per-term histories
        ref_keys = set(R.terms[0].keys()) if R.terms else set()
        if set(o_terms.keys()) != ref_keys:
            fail("term-keys", "terms", {"got": sorted(o_terms.keys()), "ref": sorted(ref_keys)}, si)
        for k in sorted(ref_keys):
            rk = np.array([float(t[k]) for t in R.terms])
            if not ts.close(np.asarray(o_terms[k]), rk):
                fail("term-history", k, {"segment": si, "got": np.asarray(o_terms[k])[:4].tolist(), "ref": rk[:4].tolist()}, si)
        # total == sum of terms (free sanity probe, not C03)
        # [0] final parameters
        if ts.has_nan(o_params):
            fail("nan-params", "final", {}, si)
        if not ts.tree_close(o_params, R.params):
            fail("final-params", "params", {"segment": si, "maxdiff": ts.maxdiff(o_params, R.params)}, si)
        # [5] optimizer state: integer leaves exactly, moments numerically
        lo, lr_ = jax.tree_util.tree_leaves(o_opt), jax.tree_util.tree_leaves(R.opt_state)
        if len(lo) != len(lr_):
            fail("opt-state", "structure", {"segment": si}, si)
        for a, b in zip(lo, lr_):
            a, b = np.asarray(a), np.asarray(b)
            if np.issubdtype(a.dtype, np.integer):
                if not np.array_equal(a, b):
                    fail("opt-state", "step-count", {"segment": si, "got": a.tolist(), "ref": b.tolist()}, si)
            elif not ts.close(a, b, scale=10.0):
                fail("opt-state", "moments", {"segment": si, "maxdiff": ts.maxdiff(a, b)}, si)
        # [3] generators: exact
        if not ts.gen_equal(o_data, R.data):
            fail("generator-state", "main-generator", {"segment": si}, si)
        # [6] tracked histories: value AFTER the update of iteration i
        tr = program.get("tracked")
        if tr is None:
            if any(x is not None for x in jax.tree_util.tree_leaves(o_stored, is_leaf=lambda x: x is None)):
                fail("tracked", "untracked-not-none", {}, si)
        else:
            if o_stored.nn_params is not None:
                fail("tracked", "nn-params-not-none", {}, si)
            for k, flag in tr.items():
                h = o_stored.eq_params.get(k)
                if flag is None:
                    if h is not None:
                        fail("tracked", "none-flag-stored", {"key": k}, si)
                    continue
                h = np.asarray(h)
                if h.shape[0] != n:
                    fail("history-shape", "tracked", {"key": k, "got": list(h.shape)}, si)
                if flag is False:
                    if np.any(h != 0):
                        fail("tracked", "false-flag-written", {"key": k, "got": h[:4].tolist()}, si)
                    continue
                ref_after = np.array([float(np.asarray(p.eq_params[k])) for p in R.params_after])
                if not ts.close(h.reshape(n), ref_after):
                    ref_before = np.array([float(np.asarray(p.eq_params[k])) for p in R.params_before])
                    fail("tracked-history", "after-update", {"key": k, "segment": si, "got": h.reshape(n)[:4].tolist(),
                                                             "ref_after": ref_after[:4].tolist(),
                                                             "equals_before_update": bool(ts.close(h.reshape(n), ref_before))}, si)
        # [4] loss object leaf-identical ; [7], [8] None
        if not ts.tree_equal(o_lossobj, P.loss):
            fail("loss-object", "changed", {}, si)
        if o_val is not None or o_best is not None:
            fail("validation-outputs", "not-none", {}, si)
        # M2: carry after every iteration
        if program["driver"] == "M2":
            if len(carries) != n + 1:
                fail("iteration-count", "carries", {"got": len(carries), "expected": n + 1}, si)
            for i in range(1, n + 1):
                c = carries[i]
                if int(np.asarray(c[0])) != i:
                    fail("iteration-count", "counter", {"at": i, "got": int(np.asarray(c[0]))}, si)
                if not ts.tree_close(c[2].params, R.params_after[i - 1]):
                    fail("carry-params", "per-iteration", {"iteration": i - 1, "maxdiff": ts.maxdiff(c[2].params, R.params_after[i - 1])}, si)
            ctx.count("probe.M2_carries_checked", n)
        if program.get("verbose"):
            ctx.count("probe.verbose")
            if "Iteration 0" not in stdout:
                fail("verbose", "no-output", {"stdout": stdout[:200]}, si)
        # non-triviality of this segment
        if n >= 2:
            deltas = [ts.maxdiff(R.params_after[i], R.params_before[i]) for i in range(n)]
            if min(deltas) <= 1e4 * ts.tol()[1]:
                moved = False
        # epoch crossing of the main generator
        mb = ts.main_batch_size(program["data"])
        d = program["data"]
        sizes = [d.get("nt"), d.get("n")]
        bs = [d.get("bt"), d.get("bo")]
        for nn, bb in zip(sizes, bs):
            if nn and bb and (n + w) * bb > nn:
                crossed = True
        total_run += n
        # continue the history: only what solve returned survives
        params, data, opt_state = o_params, o_data, o_opt
        r_params, r_data, r_opt = R.params, R.data, R.opt_state
        # aux generators are not returned by solve: the user keeps the old ones
        r_pdata, r_odata = pdata, odata
        if si + 1 < len(program["segments"]):
            ctx.count("fault.stop_resume_" + program["segments"][si + 1].get("resume", "full"))
    ctx.count("fault.driver_" + program["driver"])
    ctx.nontrivial = bool(moved and crossed and total_run >= 3)
    aux = (program.get("param_data") is not None, program.get("obs_data") is not None)
    tr = program.get("tracked")
    trk = "none" if tr is None else "+".join(f"{k}:{v}" for k, v in sorted(tr.items()))
    resume = [s.get("resume", "start") for s in program["segments"]]
    ctx.key = [program["eq"], program["opt"]["kind"], aux, trk, program["driver"], resume, program["dkeys"],
               program["data"], [s["n"] for s in program["segments"]]]
    ctx.state((program["eq"], program["opt"]["kind"], aux, trk != "none", program["driver"], tuple(resume), crossed))
    ctx.log.add("result", losses=np.asarray(o_loss), params=[np.asarray(x) for x in jax.tree_util.tree_leaves(o_params)])


def shrink(program):
    """Simplest first: fewer segments, fewer iterations, fewer components."""
    segs = program["segments"]
    if len(segs) > 1:
        yield dict(program, segments=segs[:-1])
        yield dict(program, segments=[{"n": sum(s["n"] for s in segs)}])
        yield dict(program, segments=[{"n": segs[0]["n"]}])
    for i, s in enumerate(segs):
        for nv in sorted({1, 2, s["n"] // 2, s["n"] - 1}):
            if 1 <= nv < s["n"]:
                yield dict(program, segments=segs[:i] + [dict(s, n=nv)] + segs[i + 1:])
    if program.get("driver") == "M2":
        yield dict(program, driver="M1")
    for k in ("param_data", "obs_data", "tracked"):
        if program.get(k) is not None:
            yield dict(program, **{k: None}, **({"obs_slice": None} if k == "obs_data" else {}))
    if program.get("hetero"):
        yield dict(program, hetero=False)
    if program.get("verbose"):
        yield dict(program, verbose=False)
    t = program.get("terms", {})
    for k in ("bc", "norm", "ic"):
        if t.get(k):
            yield dict(program, terms=dict(t, **{k: None if k == "bc" else False}))
    if program["opt"]["kind"] != "sgd":
        yield dict(program, opt={"kind": "sgd", "lr": 1e-2})
    if program.get("dkeys") == "both":
        yield dict(program, dkeys="default")
    if len(program["net"]["hidden"]) > 1 or program["net"]["hidden"][0] > 3:
        yield dict(program, net=dict(program["net"], hidden=[3]))
