"""C09 -- mini-batching permutes the point set and serves each point once per epoch."""

from __future__ import annotations

ID = "C09"
ENGINE = "gensim"
LEVEL = "exploration"
EXPECTED_S_PER_RUN = 2.0

KINDS = ["ode", "statio", "nonstatio", "obs", "param", "obsmulti"]

# exhaustive small scope: every (n, b), 1 <= b <= n <= NMAX_EXH, every kind, >= 3 epochs
NMAX_EXH = 8
EXH_KINDS = ["ode", "statio1", "statio2", "nonstatio", "obs", "param", "obsmulti"]
_PAIRS = [(n, b) for n in range(1, NMAX_EXH + 1) for b in range(1, n + 1)]
N_EXH = len(_PAIRS) * len(EXH_KINDS)
# thorough tier only: a second exhaustive block, NMAX_EXH < n <= NMAX_EXH_THOROUGH (run indices N_EXH .. N_EXH + N_EXH2 - 1);
# the quick tier's run indices are unchanged by it
NMAX_EXH_THOROUGH = 12
_PAIRS2 = [(n, b) for n in range(NMAX_EXH + 1, NMAX_EXH_THOROUGH + 1) for b in range(1, n + 1)]
N_EXH2 = len(_PAIRS2) * len(EXH_KINDS)

TIERS = {"quick": N_EXH + 300, "thorough": N_EXH + N_EXH2 + 12000}

RULE = (
    "runs 0..%d enumerate exhaustively every (n, b) with 1<=b<=n<=%d (thorough tier: a further block of runs up to n<=%d) for every generator kind "
    "(ODE times, 1-D interior, 2-D interior+border with n rows per facet, space-time, observations, parameters, "
    "multi-network observations) over >= 3 epochs; later runs draw 1-2 generators (n <= 24 quick / 60 thorough, "
    "about half with b | n) and a schedule of 10-40 (quick) / 20-160 (thorough) get_batch ops in modes "
    "eager / jit / lax.scan(k) / pytree round trip. A run is non-trivial when some sub-stream crossed at least one "
    "epoch boundary (a reshuffle after a complete epoch); distinct = distinct (kind, n, b, modes used) tuples."
    % (N_EXH - 1, NMAX_EXH, NMAX_EXH_THOROUGH)
)
STATE_MEASURE = "(generator kind, sub-stream, b divides n, phase in {fresh, mid-epoch, last-exact, last-clamped, just-reshuffled}, epoch index capped at 3, execution mode)"
REAL = ["jinns.data.* generators (constructors, get_batch, _reset_or_increment, dynamic_slice)", "jax.jit / lax.scan execution of get_batch"]
STUB = ["user tables (row-identity encoded)", "reference EpochModel (multiset of rows served since the last reshuffle)"]
ASSUMPTIONS = [
    "rows are compared as multiset elements (bytes), so duplicate samples cannot raise an alarm",
    "a reshuffle is observed as: store order changed, or cursor == 0 after the call, or (ambiguous) PRNG key changed; ambiguous events are resolved angelically",
    "refinement-configured generators (15 % of the collocation generators): only 'the store stays a permutation of itself' and 'batches are made of stored rows' are checked here; the epoch of their live part is C16/C17's",
]
TOLERANCES = {"float": "exact (bytes)"}


def float_mode(r):
    return "x32" if r % 4 == 3 else "x64"


def _exh_program(r, pairs=_PAIRS, key0=1000):
    kind = EXH_KINDS[r // len(pairs)]
    n, b = pairs[r % len(pairs)]
    key = key0 + r
    calls = 3 * -(-n // b) + 4
    mode = "jit" if r % 2 == 0 else "eager"
    if kind == "ode":
        t = {"kind": "ode", "key": key, "nt": n, "bt": b, "tmin": 0.0, "tmax": 1.0, "method": "uniform"}
    elif kind == "statio1":
        t = {"kind": "statio", "key": key, "n": n, "bo": b, "dim": 1, "method": "uniform",
             "min_pts": [-1.0], "max_pts": [1.0], "nb": 2, "bb": 1}
    elif kind == "statio2":
        t = {"kind": "statio", "key": key, "n": n, "bo": b, "dim": 2, "method": "uniform",
             "min_pts": [-1.0, 0.0], "max_pts": [1.0, 2.0], "nb": 4 * n, "bb": b}
    elif kind == "nonstatio":
        t = {"kind": "nonstatio", "key": key, "n": n, "bo": b, "dim": 2, "method": "uniform",
             "min_pts": [-1.0, 0.0], "max_pts": [1.0, 2.0], "nb": 4 * n, "bb": b,
             "nt": n, "bt": b, "tmin": 0.0, "tmax": 1.0, "cartesian": True}
    elif kind == "obs":
        t = {"kind": "obs", "key": key, "n": n, "b": b, "in_dim": 1, "val_dim": 1, "params": ["nu"], "param_1d": True}
    elif kind == "param":
        t = {"kind": "param", "key": key, "n": n, "b": b, "ranges": {"a": [0.0, 1.0]}, "user": {"b": "n"},
             "method": "uniform", "keys_as_dict": True}
    else:
        t = {"kind": "obsmulti", "key": key, "b": b,
             "nets": [{"n": n, "in_dim": 1, "val_dim": 1, "params": []}, None]}
    return {"float": float_mode(r), "tasks": [t], "ops": [{"t": 0, "mode": mode}] * calls, "exhaustive": True}


def generate(rng, tier, r):
    if r < N_EXH:
        return _exh_program(r)
    if tier == "thorough" and r < N_EXH + N_EXH2:
        p = _exh_program(r - N_EXH, _PAIRS2, 5000)
        p["float"] = float_mode(r)
        return p
    from sim import gensim as gg

    thorough = tier == "thorough"
    return gg.gen_program(
        rng, KINDS, max_tasks=2, max_ops=160 if thorough else 40,
        nmax=60 if thorough else 24, float_mode=float_mode(r), rar_cfg_prob=0.15,
    )


def execute(program, ctx):
    from sim import gensim

    modes = set()
    crossed = [False]

    def on_construct(t):
        for v in gensim.substreams(t.spec, t.g, None):
            t.models[v["name"]] = gensim.EpochModel(ID, t.spec["kind"], v, perm_only=bool(t.spec.get("rar_cfg")))

    def on_call(t, g, b, op, step):
        modes.add(op["mode"])
        for v in gensim.substreams(t.spec, g, b):
            m = t.models[v["name"]]
            before = (t.spec["kind"], m.name, m.div, m.phase, min(m.epochs, 3))
            m.step(v, ctx, step)
            after = (t.spec["kind"], m.name, m.div, m.phase, min(m.epochs, 3))
            ctx.state(after + (op["mode"],))
            ctx.transition(before, op["mode"], after)
            if m.epochs >= 1:
                crossed[0] = True
            if m.b == m.n:
                ctx.count("probe.b_equals_n")
            if m.b == 1:
                ctx.count("probe.b_equals_1")
            if m.name == "border":
                ctx.count("probe.border_stream")
            if m.name == "param":
                ctx.count("probe.param_stream")

    tasks = gensim.run_program(program, ctx, on_construct, on_call)
    ctx.nontrivial = crossed[0]
    ctx.key = [[(t.spec["kind"], [(m.n, m.b) for m in t.models.values()]) for t in tasks], sorted(modes)]


def shrink(program):
    from sim import gensim as gg

    yield from gg.shrink_program(program)


def evidence_extra(ok, tier):
    nmax, expected = (NMAX_EXH_THOROUGH, N_EXH + N_EXH2) if tier == "thorough" else (NMAX_EXH, N_EXH)
    exh = [r for r in ok if r["r"] < expected]
    return {
        "exhaustive_subspace": {
            "description": "every (n,b), 1<=b<=n<=%d, x %d generator kinds, >=3 epochs each" % (nmax, len(EXH_KINDS)),
            "programs": len(exh),
            "expected": expected,
            "exhaustive": len(exh) == expected,
        }
    }
