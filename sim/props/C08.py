"""C08 -- collocation points lie in the declared domain, with declared counts and shapes."""

from __future__ import annotations

ID = "C08"
ENGINE = "gensim"
LEVEL = "exploration"
EXPECTED_S_PER_RUN = 2.0
KINDS = ["ode", "statio", "nonstatio"]
TIERS = {"quick": 400, "thorough": 10000}

RULE = (
    "each run draws 1-2 collocation generators (ODE / stationary 1-D,2-D / space-time 1-D,2-D; uniform or grid; "
    "boxes with binary-exact end points in 70% of the runs, arbitrary 3-decimal ones otherwise, negative and non-unit; "
    "n <= 24 quick / 60 thorough; with and without border) and a seeded schedule of get_batch ops in modes "
    "eager / jit / lax.scan(k) / pytree round trip. Counts, closed-box membership and facet membership are checked at "
    "construction and after every single call. A run is non-trivial when at least one generator crossed a reshuffle "
    "after a complete epoch; distinct = distinct (kind, dim, method, sizes, box, modes) tuples."
)
STATE_MEASURE = "(kind, dim, method, border?, sign of box, phase of each sub-stream, execution mode)"
REAL = ["jinns.data.DataGeneratorODE / CubicMeshPDEStatio / CubicMeshPDENonStatio (constructors, get_batch)"]
STUB = ["reference BoxModel (closed interval test with bounds cast to the array dtype; facet = pinned coordinate bit-equal to the bound)"]
ASSUMPTIONS = [
    "bounds are compared after casting to the dtype of the array (float32 / float64)",
    "2-D grid sampling is only generated for square n (other n are rejected by the constructor: outside the supported space)",
]
TOLERANCES = {"membership": "exact, closed box", "facet coordinate": "bit-equal"}


def float_mode(r):
    return "x32" if r % 4 == 3 else "x64"


def generate(rng, tier, r):
    from sim import gensim as gg

    thorough = tier == "thorough"
    return gg.gen_program(rng, KINDS, max_tasks=2, max_ops=120 if thorough else 30,
                          nmax=60 if thorough else 24, float_mode=float_mode(r), rar_cfg_prob=0.2)


def _inside(np, a, lo, hi):
    lo = np.asarray(lo, dtype=a.dtype)
    hi = np.asarray(hi, dtype=a.dtype)
    return bool(np.all(a >= lo) and np.all(a <= hi) and not np.any(np.isnan(a)))


def execute(program, ctx):
    import numpy as np
    from sim import gensim
    from sim.core import Violation

    crossed = [False]
    modes = set()

    def fail(inv, t, what, details, step=None):
        s = t.spec
        raise Violation(ID, inv, f"{ID}.{inv}/{s['kind']}/dim{s.get('dim', 0)}/{s['method']}/{what}", dict(details, spec=s), step)

    def check_times(t, arr, what, step):
        s = t.spec
        if not _inside(np, arr, s["tmin"], s["tmax"]):
            fail("out-of-domain", t, what, {"min": float(np.min(arr)), "max": float(np.max(arr)), "tmin": s["tmin"], "tmax": s["tmax"]}, step)

    def check_omega(t, arr, what, step):
        s = t.spec
        for d in range(s["dim"]):
            if not _inside(np, arr[..., d], s["min_pts"][d], s["max_pts"][d]):
                fail("out-of-domain", t, what, {"axis": d, "min": float(np.min(arr[..., d])), "max": float(np.max(arr[..., d]))}, step)

    def check_border(t, arr, what, step):
        """arr: (rows, dim, 2*dim) for dim 2; last axis ordered xmin, xmax, ymin, ymax."""
        s = t.spec
        lo, hi = s["min_pts"], s["max_pts"]
        pins = [(0, lo[0]), (0, hi[0]), (1, lo[1]), (1, hi[1])]
        for f, (ax, val) in enumerate(pins):
            pinned = arr[:, ax, f]
            if not np.all(pinned == np.asarray(val, dtype=arr.dtype)):
                fail("not-on-facet", t, what, {"facet": f, "expected": val, "got": [float(x) for x in pinned[:4]]}, step)
            free = 1 - ax
            if not _inside(np, arr[:, free, f], lo[free], hi[free]):
                fail("out-of-domain", t, what + "-free-coordinate", {"facet": f}, step)

    def on_construct(t):
        s, g = t.spec, t.g
        k = s["kind"]
        if k in ("ode", "nonstatio"):
            times = np.asarray(g.times)
            if times.shape != (s["nt"],):
                fail("count", t, "times", {"stored": list(times.shape), "requested": s["nt"]})
            check_times(t, times, "times-store", None)
        if k in ("statio", "nonstatio"):
            om = np.asarray(g.omega)
            if om.shape != (s["n"], s["dim"]):
                fail("count", t, "omega", {"stored": list(om.shape), "requested": [s["n"], s["dim"]]})
            check_omega(t, om, "omega-store", None)
            if s["bb"] is None:
                if g.omega_border is not None:
                    fail("count", t, "border-not-none", {})
            elif s["dim"] == 1:
                ob = np.asarray(g.omega_border)
                if ob.shape != (2,) or ob[0] != np.asarray(s["min_pts"][0], ob.dtype) or ob[1] != np.asarray(s["max_pts"][0], ob.dtype):
                    fail("border-1d", t, "store", {"got": ob.tolist()})
            else:
                ob = np.asarray(g.omega_border)
                if ob.shape != (s["nb"] // 4, 2, 4):
                    fail("count", t, "omega_border", {"stored": list(ob.shape), "requested": [s["nb"] // 4, 2, 4]})
                check_border(t, ob, "border-store", None)
        for v in gensim.substreams(s, g, None):
            t.models[v["name"]] = {"store": v["store"].copy(), "epochs": 0, "calls": 0}
        ctx.state((k, s.get("dim", 0), s["method"], s.get("bb") is not None, "construct"))

    def on_call(t, g, b, op, step):
        s = t.spec
        k = s["kind"]
        modes.add(op["mode"])
        if k == "ode":
            tb = np.asarray(b.temporal_batch)
            if tb.shape != (s["bt"],):
                fail("batch-shape", t, "temporal", {"got": list(tb.shape), "declared": [s["bt"]]}, step)
            check_times(t, tb, "temporal-batch", step)
        elif k == "statio":
            ib = np.asarray(b.inside_batch)
            if ib.shape != (s["bo"], s["dim"]):
                fail("batch-shape", t, "inside", {"got": list(ib.shape), "declared": [s["bo"], s["dim"]]}, step)
            check_omega(t, ib, "inside-batch", step)
            bb = b.border_batch
            if s["bb"] is None:
                if bb is not None:
                    fail("batch-shape", t, "border-not-none", {}, step)
            elif s["dim"] == 1:
                bb = np.asarray(bb)
                if bb.shape != (1, 1, 2) or bb[0, 0, 0] != np.asarray(s["min_pts"][0], bb.dtype) or bb[0, 0, 1] != np.asarray(s["max_pts"][0], bb.dtype):
                    fail("border-1d", t, "batch", {"got": bb.tolist()}, step)
                ctx.count("probe.border_1d")
            else:
                bb = np.asarray(bb)
                if bb.shape != (s["bb"], 2, 4):
                    fail("batch-shape", t, "border", {"got": list(bb.shape), "declared": [s["bb"], 2, 4]}, step)
                check_border(t, bb, "border-batch", step)
                ctx.count("probe.border_2d")
        else:
            tx = np.asarray(b.times_x_inside_batch)
            rows = s["bt"] * s["bo"] if s["cartesian"] else s["bo"]
            if tx.shape != (rows, 1 + s["dim"]):
                fail("batch-shape", t, "times_x_inside", {"got": list(tx.shape), "declared": [rows, 1 + s["dim"]]}, step)
            check_times(t, tx[:, 0], "inside-batch-time", step)
            check_omega(t, tx[:, 1:], "inside-batch-space", step)
            tdx = b.times_x_border_batch
            if s["bb"] is None:
                if tdx is not None:
                    fail("batch-shape", t, "border-not-none", {}, step)
            else:
                tdx = np.asarray(tdx)
                if s["dim"] == 1:
                    shp = (s["bt"], 2, 2)
                elif s["cartesian"]:
                    shp = (s["bt"] * s["bb"], 3, 4)
                else:
                    shp = (s["bb"], 3, 4)
                if tdx.shape != shp:
                    fail("batch-shape", t, "times_x_border", {"got": list(tdx.shape), "declared": list(shp)}, step)
                check_times(t, tdx[:, 0, :], "border-batch-time", step)
                if s["dim"] == 1:
                    x = tdx[:, 1, :]
                    if not (np.all(x[:, 0] == np.asarray(s["min_pts"][0], x.dtype)) and np.all(x[:, 1] == np.asarray(s["max_pts"][0], x.dtype))):
                        fail("border-1d", t, "batch", {"got": x[:3].tolist()}, step)
                    ctx.count("probe.border_1d")
                else:
                    check_border(t, tdx[:, 1:, :], "border-batch", step)
                    ctx.count("probe.border_2d")
        # stores stay in the box whatever the history; reshuffle bookkeeping for the coverage measure
        phases = []
        for v in gensim.substreams(s, g, b):
            m = t.models[v["name"]]
            m["calls"] += 1
            resh = (not np.array_equal(v["store"], m["store"])) or v["cursor"] == 0
            if resh and m["calls"] > 1:
                m["epochs"] += 1
                crossed[0] = True
                ctx.count("probe.reshuffle_crossed")
            m["store"] = v["store"].copy()
            phases.append((v["name"], min(m["epochs"], 2)))
            if v["name"] == "times":
                check_times(t, v["store"], "times-store", step)
        if s.get("rar_cfg"):
            ctx.count("probe.refinement_configured_store")
        if k in ("statio", "nonstatio"):
            check_omega(t, np.asarray(g.omega), "omega-store", step)
        if s["method"] == "grid":
            ctx.count("probe.grid_method")
        if any(x < 0 for x in (s.get("min_pts") or []) + [s.get("tmin", 0)]):
            ctx.count("probe.negative_box")
        ctx.state((k, s.get("dim", 0), s["method"], s.get("bb") is not None, tuple(phases), op["mode"]))

    tasks = gensim.run_program(program, ctx, on_construct, on_call)
    ctx.nontrivial = crossed[0]
    ctx.key = [[t.spec for t in tasks], sorted(modes)]


def shrink(program):
    from sim import gensim as gg

    yield from gg.shrink_program(program)
