"""Generates MANIFEST.json (kept in one place so that it stays valid).  python tools_manifest.py"""
import json, subprocess

NA_PURE = {
    "C01": "pure function of (field, point, dimension): no schedule, clock, fault or history for a simulator to vary; differential/symbolic testing is the right technique",
    "C02": "pure function of (network, point, equation parameters): stateless composition of AD derivatives; nothing for a scheduler or fault injector to decide",
    "C03": "pure function of (params, batch, weights): algebraic identities of one evaluate() call; no history or fault dimension",
    "C04": "pure function of (network, boundary function, border batch); the history-dependent part (border points sit on ordered facets) is checked under C08",
    "C05": "pure function of (network, batch, tables); no schedule, clock or fault in the statement",
    "C06": "pure function of a finite mask configuration and (params, batch): enumeration of inputs, not of schedules or faults",
    "C10": "pure function of (architecture, params, input)",
    "C11": "equality of two stateless functions on the same input",
    "C12": "statement about one evaluate(params, batch) call with the batch as input; how generators build aligned batches over time is checked under C14/C15",
    "C13": "pure function of (system configuration, params, batch)",
}

CHECKS = {
    "C08": ("gensim", "exploration", "seeded generator histories (scheduler picks task and execution mode) vs closed-box / facet reference model after every call",
            "Sampled, not exhaustive: counts, shapes, closed-box and facet membership are checked at construction and after every single get_batch of seeded histories over all collocation generator kinds, dims, sampling methods and execution modes (eager/jit/scan/round trip).",
            "trusts numpy comparisons with bounds cast to the array dtype; 2-D grid only for square n (others are rejected by the constructor)"),
    "C09": ("gensim", "exploration", "seeded generator histories vs multiset epoch reference model, plus exhaustive small scope (all n<=8 quick / n<=12 thorough, b<=n, 7 stream kinds, 3 epochs)",
            "Every (n,b) with b<=n<=8 for every stream kind is enumerated over >=3 epochs (exhaustive sub-space, reported separately); beyond that, seeded histories with larger n, several interleaved generators and all execution modes are sampled. Oracle: permutation only, no double serve when b|n, full cover otherwise, reshuffle exactly when covered.",
            "reshuffles are observed from store order / cursor==0 / key change (ambiguous events resolved angelically); refinement-configured generators are checked for permutation-only invariants here, the epoch of their live part is C16/C17's"),
    "C14": ("gensim", "exploration", "seeded space-time generator histories vs explicit double-loop product model + per-factor epoch models",
            "After every call of seeded histories the interior batch and every border facet are compared bit-for-bit with the explicit product (or pairing) of the factors read off the batch, and the factors are checked against the temporal/spatial/border sub-streams (membership + epoch model).",
            "factors are read off the batch (T every bx rows, X first bx rows) and validated against the stores; CPU only"),
    "C15": ("gensim", "exploration", "seeded loader histories on row-identity encoded tables vs decoder + epoch model",
            "Tables encode the row index in every column and parameter ranges are disjoint per key, so every served value has a decidable provenance; checked after every call of seeded histories for the three loader kinds, both documented table shapes, dict and single PRNG keys, all execution modes.",
            "workers force PYTHONHASHSEED=0 (single-key parameter loaders depend on set iteration order)"),
}

def main():
    hooks_commits = subprocess.run(["git", "-C", "/repo", "log", "--format=%H %s"], capture_output=True, text=True).stdout.splitlines()
    hook = [l.split()[0] for l in hooks_commits if "verif hook" in l]
    import os, sys
    sys.path.insert(0, os.path.dirname(os.path.abspath(__file__)))
    from manifest_checks import CHECKS as ALL, PENDING
    checks = []
    for pid, (engine, level, technique, text, note) in sorted(ALL.items()):
        checks.append({
            "property_id": pid,
            "quick_cmd": f"./check {pid} quick",
            "thorough_cmd": f"./check {pid} thorough",
            "evidence_file": f"/verif/evidence/{pid}.json",
            "replay_cmd_template": f"./check {pid} --replay {{path}}",
            "engine": engine,
            "level_claimed": {"category": level, "text": text, "design_ref": f"DESIGN.md section 5 ({pid})"},
            "level_note": note,
            "technique": "deterministic simulation with fault injection: " + technique,
        })
    na = [{"property_id": k, "reason": v} for k, v in sorted(NA_PURE.items())]
    for k, v in sorted(PENDING.items()):
        na.append({"property_id": k, "reason": v})
    m = {
        "version": 1,
        "setup_cmd": "./setup.sh",
        "hooks": {
            "guard": "JINNS_VERIF",
            "enable": "environment variable JINNS_VERIF=1 (set by ./check for its worker interpreters); python package, no build step: checks import /repo's working tree through PYTHONPATH",
            "baseline_off_cmd": "cd /repo && env -u JINNS_VERIF /venv/bin/python -m pytest -ra -q -p no:cacheprovider --timeout=900 --continue-on-collection-errors",
            "source_commits": hook,
            "add_only": True,
        },
        "engines": [
            {"name": "gensim", "path": "sim/gensim.py", "serves_properties": ["C08", "C09", "C14", "C15"],
             "kind_free_text": "seeded scheduler over 1-2 real data generators; every get_batch executed eagerly / jitted / inside lax.scan / after a pytree round trip; reference models checked after every call"},
            {"name": "trainsim", "path": "sim/trainsim.py", "serves_properties": ["C07", "C16", "C17", "C18", "C19"],
             "kind_free_text": "the real jinns.solve loop on the iteration clock under both loop drivers, with faults injected through optimizer stages, poisoned tables, scripted validation modules and stop/resume segments, against an independent reference loop"},
            {"name": "puritysim", "path": "sim/puritysim.py", "serves_properties": ["C20"],
             "kind_free_text": "seeded order of eager / jit / value_and_grad / get_batch calls on shared objects with deep snapshots"},
        ],
        "checks": checks,
        "not_applicable": na,
        "notes": "One integer (VERIF_SEED) decides every program, schedule and fault; fixed run counts per tier; exit 0/1/2 = held / VIOLATION / HARNESS-ERROR. See DESIGN.md.",
    }
    json.dump(m, open("/verif/MANIFEST.json", "w"), indent=1)
    print("checks:", [c["property_id"] for c in checks], "not_applicable:", [x["property_id"] for x in na])

if __name__ == "__main__":
    main()
